#!/venv/bin/python
"""Regenerates MANIFEST.json from the table below (keeps it valid at all times)."""
import json, os
here = os.path.dirname(os.path.dirname(os.path.abspath(__file__)))
props = [json.loads(l) for l in open(os.path.join(here, "properties.jsonl"))]
CHECKS = json.load(open(os.path.join(here, "tools", "checks.json")))
man = {
    "version": 1,
    "setup_cmd": "./setup.sh",
    "hooks": {
        "guard": "FUNC_ADL_XAOD_VERIF",
        "enable": "no hooks are needed: every check observes the translator from outside (returned ExecutionInfo, rendered files, compiled stub job output, stub tools); the guard name is reserved only",
        "baseline_off_cmd": "cd /repo && /venv/bin/python -m pytest -ra -q -p no:cacheprovider --timeout=900 --continue-on-collection-errors",
        "source_commits": [],
        "add_only": True,
    },
    "engines": [
        {"name": "A-execute-and-compare", "path": "vf/cxx.py", "serves_properties": [c for c in CHECKS if CHECKS[c].get("engine") == "A"], "kind_free_text": "translate -> g++ against generated stub model of ATLAS/CMS frameworks -> run on generated events -> compare with Python eval of the same query text"},
        {"name": "B-rendered-text", "path": "vf/norm.py", "serves_properties": [c for c in CHECKS if CHECKS[c].get("engine") == "B"], "kind_free_text": "metamorphic / differential comparison of rendered packages modulo a checked bijection of generated names"},
        {"name": "C-model", "path": "vf/props", "serves_properties": [c for c in CHECKS if CHECKS[c].get("engine") == "C"], "kind_free_text": "independent model / stateful fault-injecting harness"},
    ],
    "checks": [],
    "not_applicable": [],
    "notes": "All checks: ./check <id> quick|thorough; Hypothesis-driven generated-input search against explicit oracles; see DESIGN.md.",
}
for p in props:
    pid = p["id"]
    c = CHECKS.get(pid)
    if not c or not c.get("built"):
        man["not_applicable"].append({"property_id": pid, "reason": (c or {}).get("na_reason", "check not built yet in this session (planned, see DESIGN.md section 3)")})
        continue
    man["checks"].append({
        "property_id": pid,
        "quick_cmd": f"./check {pid} quick",
        "thorough_cmd": f"./check {pid} thorough",
        "evidence_file": f"/verif/evidence/{pid}.json",
        "replay_cmd_template": f"./check {pid} --replay {{path}}",
        "engine": {"A": "A-execute-and-compare", "B": "B-rendered-text", "C": "C-model"}[c["engine"]],
        "level_claimed": {"category": "exploration", "text": c["level_text"], "design_ref": f"DESIGN.md section 3 {pid}"},
        "level_note": c["level_note"],
        "technique": c["technique"],
    })
json.dump(man, open(os.path.join(here, "MANIFEST.json"), "w"), indent=1)
print("checks:", [c["property_id"] for c in man["checks"]], "n/a:", [c["property_id"] for c in man["not_applicable"]])
