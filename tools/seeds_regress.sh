#!/bin/bash
# tools/seeds_regress.sh [name...]: re-run, against a scratch copy of /repo with each seeded change applied, the checks its meta.json
# says catch it; prints CAUGHT / MISSED per (seed, check).  Sensitivity regression for the machinery itself.
cd "$(dirname "$0")/.."
names="$@"; [ -z "$names" ] && names=$(ls seeded)
for n in $names; do
  git -C /repo apply --check $PWD/seeded/$n/patch.diff 2>/dev/null || { echo "$n: PATCH DOES NOT APPLY"; continue; }
  grep -q neutralised_by seeded/$n/meta.json && { echo "$n: neutralised by a later /repo fix (skipped)"; continue; }
  checks=$(python3 -c "
import json,re
j=json.load(open('seeded/$n/meta.json'))
print(' '.join(sorted({m.group(1) for c in j['caught_by'] for m in [re.match(r'(C\d+) quick', c)] if m})))")
  for c in $checks; do
    for sd in ${SEEDS:-1}; do
      out=$(VERIF_SEED=$sd tools/mutant.sh $PWD/seeded/$n/patch.diff -- $c quick 2>&1 | tail -1)
      if [ "$out" = "exit=1" ]; then echo "$n $c seed=$sd CAUGHT"; else echo "$n $c seed=$sd MISSED ($out)"; fi
    done
  done
done
exit 0
