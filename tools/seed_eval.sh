#!/bin/bash
# tools/seed_eval.sh <id> [extra check ids...] : validate the seeded change in /tmp/seed_<id>/SEED and run our checks against it
# usage: seed_eval.sh <id> [check ids...]            (worktree /tmp/seed_<id>, stored as seeded/<id>)
#        seed_eval.sh -w <worktree> <name> <check ids...>   (stored as seeded/<name>; the first check id is required)
if [ "$1" = "-w" ]; then wt=$2; name=$3; shift 3; id=$1; shift; else id=$1; shift; wt=/tmp/seed_$id; name=$id; fi
dst=/verif/seeded/$name
mkdir -p $dst
git -C $wt diff -- func_adl_xAOD > $dst/patch.diff
[ -s $dst/patch.diff ] || { echo "EMPTY PATCH"; exit 2; }
cp -r $wt/SEED/* $dst/ 2>/dev/null
git -C $wt diff -- func_adl_xAOD > $dst/patch.diff
demo=$(ls $dst/demo.* | head -1)
run_demo() { if [[ $demo == *.sh ]]; then (cd $wt && bash SEED/$(basename $demo) >/dev/null 2>&1); else (cd $wt && PYTHONPATH=$wt /venv/bin/python SEED/$(basename $demo) >/dev/null 2>&1); fi; echo $?; }
echo "== tests with change:"; (cd $wt && PYTHONPATH=$wt /venv/bin/python -m pytest -q -p no:cacheprovider 2>&1 | tail -1)
echo "== demo with change (expect non-zero): $(run_demo)"
(cd $wt && git apply -R $dst/patch.diff)
echo "== demo without change (expect 0): $(run_demo)"
(cd $wt && git apply $dst/patch.diff)
echo "== our checks against the change:"
# a scratch copy of /repo's working tree with the change applied (so that background runs against /repo are not disturbed)
scratch=$(mktemp -d /tmp/vf_seed_XXXXXX); trap 'rm -rf "$scratch"' EXIT
git -C /repo archive HEAD func_adl_xAOD | tar -x -C "$scratch"
( cd /repo && git diff HEAD -- func_adl_xAOD ) | ( cd "$scratch" && patch -p1 -s ) 2>/dev/null
( cd "$scratch" && git apply $dst/patch.diff ) || { echo "PATCH DOES NOT APPLY TO /repo"; exit 2; }
for c in $id "$@"; do
  out=$(cd /verif && VERIF_EVIDENCE_DIR=/verif/out/mutant-evidence VERIF_REPO="$scratch" ./check $c quick 2>&1); e=$?
  echo "$out" | grep -E "^violation|^C[0-9]+ quick" | cut -c1-260 | head -4
  echo "   -> ./check $c quick exit=$e"
done
