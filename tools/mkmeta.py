import json, sys
name, prop, change, needs, caught, missed = sys.argv[1:7]
j = {"property": prop, "source": "independent sub-agent (later rounds), told what the earlier seeded changes for this property did and asked for a different mechanism",
     "change": change, "needs_to_manifest": needs,
     "verified": "tools/seed_eval.sh: 316 tests pass with the change; the sub-agent's demo exits non-zero with it and 0 without; our checks were run against a scratch copy of /repo's tree with the patch applied",
     "caught_by": [c for c in caught.split("|") if c]}
if missed:
    j["missed_at_first_by"] = missed
json.dump(j, open(f"/verif/seeded/{name}/meta.json", "w"), indent=1)
