import json,sys,re
j=json.load(open(sys.argv[1])); c=j['case']
print(j.get('what'))
q=c['query']
q=re.sub(r"MetaData\(", "", q)
q=re.sub(r", \{'metadata_type': 'add_method_type_info'[^}]*\}\)", "", q)
print(c['backend'], q)
for e in c.get('events',[]):
    print(' ev', e['id'], [(b[1], len(b[2])) for b in e['banks']])
