#!/bin/bash
# tools/sweep.sh <seed>...: every quick check at the given seeds on the unchanged tree (evidence kept apart); prints one line per run
cd "$(dirname "$0")/.."
for s in "$@"; do for c in C01 C02 C03 C04 C05 C06 C07 C08 C09 C10 C11 C12 C13 C14 C15 C16 C17 C18; do
  out=$(VERIF_SEED=$s VERIF_EVIDENCE_DIR=$PWD/out/sweep-evidence ./check $c quick 2>&1); e=$?
  echo "$out" | grep -E "^violation|^VIOLATION|quick seed=" | cut -c1-400; [ $e -ne 0 ] && echo "   EXIT=$e $c seed=$s"
done; done
exit 0
