"""Rewrite the table of seeded changes in DESIGN.md (between the two markers) from seeded/*/meta.json."""
import glob, json, re
rows = []
for f in sorted(glob.glob('/verif/seeded/*/meta.json')):
    m = json.load(open(f))
    name = f.split('/')[-2]
    caught = '; '.join(m['caught_by']) + (' - NEUTRALISED since /repo fix ' + m['neutralised_by'].split()[0] + ': the change no longer breaks the property' if 'neutralised_by' in m else '')
    rows.append(f"| {name} | {m['property']} | {m['change']} | {m['needs_to_manifest']} | {caught} |")
n = len(rows)
missed = sum(1 for f in glob.glob('/verif/seeded/*/meta.json') if 'missed' in open(f).read())
txt = ("<!-- seeded-table-begin -->\n| seeded | property | change | needs | caught by |\n|---|---|---|---|---|\n" + "\n".join(rows) +
       f"\n\n{n} changes, each written by a sub-agent that saw only the property text and a scratch worktree (never /verif); the second-round agents (names ending in b) were told what the first "
       f"change for that property did and asked for a different mechanism. {n - missed} were caught by the checks as they stood; {missed} were missed at first - each for a generator reason "
       "recorded in its row - and are caught after the strengthening described there. Every row was re-verified with tools/seed_eval.sh (tests pass with the change, the agent's demo fails with "
       "it and passes without, our check run against /repo with the patch applied and /repo restored afterwards).\n<!-- seeded-table-end -->")
p = '/verif/DESIGN.md'
s = open(p).read()
if '<!-- seeded-table-begin -->' in s:
    s = re.sub(r'<!-- seeded-table-begin -->.*?<!-- seeded-table-end -->', lambda _: txt, s, flags=re.S)
else:
    a = s.index('| seeded | change | needs | caught by |')
    b = s.index('now fixed.', a) + len('now fixed.')
    s = s[:a] + txt + s[b:]
open(p, 'w').write(s)
print(n, 'rows', missed, 'missed at first')
