#!/bin/bash
# tools/seeds_demo.sh [name...]: is each seeded change still a violation on the CURRENT /repo tree?  (its demo must fail with the patch applied
# and pass without; a /repo fix can neutralise an older seed)
cd "$(dirname "$0")/.."
names="$@"; [ -z "$names" ] && names=$(ls seeded)
base=$(mktemp -d /tmp/vf_sd_XXXXXX); trap 'rm -rf "$base"' EXIT
git -C /repo archive HEAD | tar -x -C $base
for n in $names; do
  grep -q neutralised_by seeded/$n/meta.json && { echo "$n: neutralised / superseded by a later /repo fix (skipped)"; continue; }
  d=$base.$n; cp -r $base $d
  ( cd $d && git apply /verif/seeded/$n/patch.diff 2>/dev/null ) || { echo "$n: PATCH DOES NOT APPLY"; rm -rf $d; continue; }
  mkdir -p $d/SEED; cp -r seeded/$n/* $d/SEED/
  demo=$(ls seeded/$n/demo.* | head -1)
  if [[ $demo == *.sh ]]; then (cd $d && timeout 600 bash SEED/$(basename $demo) >/dev/null 2>&1); e=$?; else (cd $d && PYTHONPATH=$d timeout 600 /venv/bin/python SEED/$(basename $demo) >/dev/null 2>&1); e=$?; fi
  if [ $e -ne 0 ]; then echo "$n demo fails with the change (still a violation)"; else echo "$n DEMO PASSES WITH THE CHANGE (neutralised?)"; fi
  rm -rf $d
done
exit 0
