#!/bin/bash
# tools/mkhuntwt.sh <worktree> <property id>... : a scratch worktree of /repo for a defect-hunting sub-agent:
# PROPERTIES.txt (the property texts), KNOWN.txt (defects already recorded, not to be re-reported), prompt printed on stdout
wt=$1; shift
git -C /repo worktree add -q --detach $wt HEAD || exit 2
python3 - "$wt" "$@" <<'PY'
import json, sys
wt, pids = sys.argv[1], sys.argv[2:]
with open(wt + '/PROPERTIES.txt', 'w') as f:
    for l in open('/verif/properties.jsonl'):
        j = json.loads(l)
        if j['id'] in pids:
            f.write(f"{j['id']}: {j['title']}\n\n{j['statement']}\n\nQuantified over: {j['quantifier']['text']}\n\nAnchors:\n")
            for fn in j['anchors'].get('files', []):
                f.write("  " + fn + "\n")
            for m in j['anchors'].get('mechanism', []):
                f.write(f"  {m['name']}: {m['where']}\n")
            f.write("\n" + "=" * 100 + "\n\n")
with open(wt + '/KNOWN.txt', 'w') as f:
    f.write("Defects already recorded (do not re-report these or close variants):\n")
    for l in open('/verif/known_findings.txt'):
        if l.startswith('known:'):
            f.write("- " + l.split('::', 1)[1].strip() + "\n")
t = open('/verif/tools/hunt_prompt.txt').read().replace('__WT__', wt)
t += f"\n\nAlso read {wt}/KNOWN.txt first: it lists defects that are already recorded as known limitations; do not re-report those or close variants of them."
print(t)
PY
mkdir -p $wt/HUNT
