#!/bin/bash
# usage: tools/mutant.sh <patch-file|-e sed-expr file> -- <check args...>
# copies /repo (tracked files) to a scratch dir, applies the change, runs ./check with VERIF_REPO there, removes it.
set -u
here="$(cd "$(dirname "${BASH_SOURCE[0]}")/.." && pwd)"
scratch=$(mktemp -d /tmp/vf_mut_XXXXXX)
trap 'rm -rf "$scratch"' EXIT
git -C /repo archive HEAD func_adl_xAOD | tar -x -C "$scratch"
# include uncommitted working tree changes of /repo
( cd /repo && git diff HEAD -- func_adl_xAOD ) | ( cd "$scratch" && patch -p1 -s ) 2>/dev/null
if [ "$1" = "-e" ]; then
  sed -i -E "$2" "$scratch/$3" || exit 2
  shift 3
else
  ( cd "$scratch" && patch -p1 -s < "$1" ) || { echo "patch failed"; exit 2; }
  shift 1
fi
[ "$1" = "--" ] && shift
( cd "$scratch" && diff -ru /repo/func_adl_xAOD func_adl_xAOD | grep -E '^[+-]' | grep -vE '^(\+\+\+|---)' | head -8 )
cd "$here"
VERIF_EVIDENCE_DIR="$here/out/mutant-evidence" VERIF_REPO="$scratch" ./check "$@"
echo "exit=$?"
