#!/bin/bash
# run every registered check (tier $1, default quick) against /repo, then validate manifest + evidence
cd "$(dirname "$0")/.."
tier=${1:-quick}
rc=0
for id in $(/venv/bin/python -c "import json;print(' '.join(c['property_id'] for c in json.load(open('MANIFEST.json'))['checks']))"); do
  out=$(./check $id $tier 2>&1); e=$?
  echo "$out" | grep -v "^KNOWN-FINDING" | tail -2
  [ $e -ne 0 ] && { echo "  ^^^ exit $e"; rc=1; }
done
python3-vt tools/validate.py || rc=1
exit $rc
