"""tools/mkseedprompt.py <worktree> <property id>: print the sub-agent prompt for a new seeded change
(prior mechanisms for that property are read from seeded/*/meta.json)."""
import glob, json, sys
wt, pid = sys.argv[1:3]
prior = []
for f in sorted(glob.glob('/verif/seeded/*/meta.json')):
    j = json.load(open(f))
    if j['property'] == pid:
        prior.append('- ' + j['change'] + ' (needed: ' + j['needs_to_manifest'] + ')')
t = open('/verif/tools/seed_prompt.txt').read()
print(t.replace('__WT__', wt).replace('__PRIOR__', '\n'.join(prior) or '(none)'))
