#!/bin/bash
# tools/mkseedwt.sh <worktree> <property id>: a scratch worktree of /repo for a sub-agent, holding only the property text
wt=$1; id=$2
git -C /repo worktree add -q --detach $wt HEAD || exit 2
python3 - "$wt" "$id" <<'PY'
import json, sys
wt, pid = sys.argv[1:]
for l in open('/verif/properties.jsonl'):
    j = json.loads(l)
    if j['id'] == pid:
        with open(wt + '/PROPERTY.txt', 'w') as f:
            f.write(f"{j['id']}: {j['title']}\n\n{j['statement']}\n\nQuantified over: {j['quantifier']['text']}\n\nAnchors:\n")
            for fn in j['anchors'].get('files', []):
                f.write("  " + fn + "\n")
            for m in j['anchors'].get('mechanism', []):
                f.write(f"  {m['name']}: {m['where']}\n")
PY
mkdir -p $wt/SEED
