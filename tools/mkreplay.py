"""tools/mkreplay.py <pid> <key> <backend> "<query, DS = dataset with declared types>" "<what>"
writes regress/<pid>-<key>.json with generated events on which the property module's replay() fails."""
import sys, json, re, importlib, warnings
warnings.filterwarnings("ignore")
from vf.gen.query import dataset_text
from vf.model.schema import standard_schema
from vf.model.events import events_strategy
pid, key, be, body, what = sys.argv[1:6]
sch = standard_schema(be)
q = body.replace("DS", dataset_text(sch))
uses = [(a, b) for a, b in re.findall(r"\.(\w+)\('(\w+)'\)", q) if any(c.accessor == a for c in sch.colls)]
mod = importlib.import_module("vf.props." + pid)
for i in range(40):
    evs = events_strategy(sch, uses or [(sch.colls[0].accessor, sch.colls[0].banks[0])], n_min=2, n_max=3).example()
    case = {"backend": be, "query": q, "events": [e.to_json() for e in evs]}
    vs = mod.replay(case)
    if vs:
        json.dump({"property": pid, "key": key, "what": what, "observed": vs[0]["what"], "case": case}, open(f"/verif/regress/{pid}-{key}.json", "w"), indent=1)
        print("written; observed:", vs[0]["what"][:200])
        break
else:
    print("could not reproduce")
