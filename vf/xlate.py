"""Thin helpers around the real translator (always imported from VERIF_REPO)."""
from __future__ import annotations

import ast
import logging
import os
import shutil
import tempfile
from pathlib import Path
from typing import Dict, List, Optional, Tuple

BACKENDS = ("atlas", "cms_aod", "cms_miniaod")


def make_executor(backend: str):
    if backend == "atlas":
        from func_adl_xAOD.atlas.xaod.executor import atlas_xaod_executor

        return atlas_xaod_executor()
    if backend == "cms_aod":
        from func_adl_xAOD.cms.aod.executor import cms_aod_executor

        return cms_aod_executor()
    if backend == "cms_miniaod":
        from func_adl_xAOD.cms.miniaod.executor import cms_miniaod_executor

        return cms_miniaod_executor()
    raise ValueError(backend)


def parse_query(text: str) -> ast.AST:
    return ast.parse(text, mode="eval").body


class _WarnCatcher(logging.Handler):
    def __init__(self):
        super().__init__(level=logging.WARNING)
        self.msgs: List[str] = []

    def emit(self, record):
        self.msgs.append(record.getMessage())


class Package:
    def __init__(self, backend, info, files: Dict[str, str], warnings: List[str], outdir: Optional[Path]):
        self.backend = backend
        self.info = info
        self.files = files
        self.warnings = warnings
        self.outdir = outdir

    @property
    def treename(self):
        return getattr(self.info.result_rep, "treename", None)

    @property
    def filename(self):
        return getattr(self.info.result_rep, "filename", None)


def translate(query, backend: str, outdir: Optional[str] = None, exe=None, keep: bool = False) -> Package:
    """query: source text or ast.  Raises whatever the translator raises."""
    a = parse_query(query) if isinstance(query, str) else query
    if exe is None:
        exe = make_executor(backend)
    tmp = None
    if outdir is None:
        tmp = tempfile.mkdtemp(prefix="vf_pkg_")
        outdir = tmp
    wc = _WarnCatcher()
    root = logging.getLogger()
    root.addHandler(wc)
    try:
        a2 = exe.apply_ast_transformations(a)
        info = exe.write_cpp_files(a2, Path(outdir))
        files = {}
        for fn in info.all_filenames:
            p = Path(outdir) / fn
            if p.exists():
                files[fn] = p.read_text()
        return Package(backend, info, files, wc.msgs, Path(outdir) if (keep or tmp is None) else None)
    finally:
        root.removeHandler(wc)
        if tmp is not None and not keep:
            shutil.rmtree(tmp, ignore_errors=True)
