"""Engine A: one case = (backend, query text, schema, events).  translate -> compile -> run -> compare
with the reference evaluation of the same text."""
from __future__ import annotations

import os
import shutil
import tempfile
from typing import Any, Dict, List, Optional

from vf import cxx
from vf.core import Discard, Violation
from vf.model.events import Event, write_events
from vf.model.schema import Schema
from vf.ref import linq
from vf.xlate import translate


class CaseResult:
    def __init__(self):
        self.stage = "ok"  # rejected | compile | crash | ok
        self.error: Optional[str] = None
        self.pkg = None
        self.out: Optional[dict] = None
        self.ref: Optional[List[dict]] = None


def first_error_line(stderr: str) -> str:
    for l in stderr.split("\n"):
        if "error:" in l:
            return l.strip()[:300]
    return stderr.strip().split("\n")[0][:300] if stderr.strip() else "?"


def job_event_limit(files: dict) -> Optional[int]:
    """How many input events the rendered job configuration lets the framework process (None = all).  The stand-in driver has no
    configuration layer of its own, so the limit the package asks the real framework for (cmsRun: process.maxEvents; EventLoop:
    optMaxEvents) is honoured here."""
    import re as _re

    cfg = files.get("analyzer_cfg.py")
    if cfg is not None:
        m = _re.search(r"process\.maxEvents\s*=\s*cms\.untracked\.PSet\(\s*input\s*=\s*cms\.untracked\.int32\(\s*(-?\d+)\s*\)\s*\)", cfg)
        if m and int(m.group(1)) >= 0:
            return int(m.group(1))
    job = files.get("ATestRun_eljob.py")
    if job is not None:
        m = _re.search(r"optMaxEvents\s*,\s*(-?\d+)", job)
        if m and int(m.group(1)) >= 0:
            return int(m.group(1))
    return None


def execute(text: str, backend: str, events: List[Event], model_dir: str, schedule=None, keep=False):
    """Returns (pkg, compiled, out).  Raises nothing for translation/compile failures: encoded in result."""
    res = CaseResult()
    try:
        pkg = translate(text, backend)
    except Exception as e:  # translation refused
        res.stage = "rejected"
        res.error = f"{type(e).__name__}: {str(e)[:300]}"
        return res
    res.pkg = pkg
    comp = cxx.compile_package(pkg.files, backend, model_dir)
    try:
        if not comp.ok:
            res.stage = "compile"
            res.error = first_error_line(comp.stderr)
            return res
        evf = os.path.join(comp.workdir, "events.txt")
        write_events(events, evf)
        sched = list(schedule) if schedule is not None else list(range(len(events)))
        limit = job_event_limit(pkg.files)
        if limit is not None:
            sched = sched[:limit]  # the framework stops reading input there
        out = cxx.run_job_resume(comp.exe, evf, len(events), sched) if sched else cxx.run_job_resume(comp.exe, evf, 0, [])
        res.out = out
        if out.get("crashed"):
            res.stage = "crash"
            res.error = str(out["crashed"])
        return res
    finally:
        if not keep:
            comp.cleanup()
        else:
            res.workdir = comp.workdir


def compare_event(ref: dict, obs: dict, tree: Optional[str] = None) -> Optional[str]:
    """ref: {'eager','lazy','need','agree'}; obs: parsed driver event.  None if equivalent, else a description.
    When the evaluation orders disagree (they can only disagree on which faults are met) the job may fault
    iff the most eager order faults, and may produce rows iff the laziest (call-by-need) order does."""
    if ref["agree"]:
        return _cmp_one(ref["eager"], obs)
    job_faulted = obs["fault"] is not None or obs["status_failure"]
    if job_faulted:
        return _cmp_one(ref["eager"], obs)
    return _cmp_one(ref["need"], obs)


def _cmp_one(r: dict, obs: dict) -> Optional[str]:
    if "undefined" in r:
        return None
    if "status_failure" in r:
        if not obs["status_failure"]:
            return "reference: retrieval fails the event; job did not report a failed status"
        if obs["rows"]:
            return "rows written for an event whose retrieval failed"
        return None
    if "fault" in r:
        if obs["fault"] is None and not obs["status_failure"]:
            return f"reference faults ({r['fault']}) but the job did not (rows={obs['rows']})"
        return None
    if obs["fault"] is not None:
        return f"job faulted ({obs['fault'][0]}: {obs['fault'][1][:80]}) where the query is defined"
    if obs["status_failure"]:
        return "job reported failed status where the query is defined"
    exp_rows = [linq.row_columns(x) for x in r["rows"]]
    obs_rows = [row for _, row in obs["rows"]]
    if len(exp_rows) != len(obs_rows):
        return f"row count: expected {len(exp_rows)} got {len(obs_rows)} (expected {exp_rows}, got {obs_rows})"
    for i, (a, b) in enumerate(zip(exp_rows, obs_rows)):
        if len(a) != len(b):
            return f"row {i}: column count expected {len(a)} got {len(b)}"
        for c, (x, y) in enumerate(zip(a, b)):
            if not linq.values_equal(x, y):
                return f"row {i} column {c}: expected {x!r} got {y!r}"
    return None
