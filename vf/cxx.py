"""Engine A plumbing: build the C++ model for a schema (with PCH), compile a rendered package
against it, run the job on an event file, parse the driver protocol."""
from __future__ import annotations

import hashlib
import json
import os
import shutil
import subprocess
import tempfile
from typing import Dict, List, Optional, Tuple

from vf.core import VERIF, HarnessError
from vf.model import gen
from vf.model.schema import Schema, standard_schema

BUILD = os.path.join(VERIF, ".build")
MODEL_SRC = os.path.join(VERIF, "vf", "model")
CXX = os.environ.get("VERIF_CXX", "g++")
RT_FILES = ("vf_runtime.h", "vf_runtime.cpp", "vf_atlas_fw.h", "vf_cms_fw.h")
CXXFLAGS = ["-std=c++17", "-O0", "-Werror=return-type", "-Werror=uninitialized", "-fmax-errors=5"]


def unhex(s: str) -> str:
    return "" if s == "-" else bytes.fromhex(s).decode("utf-8", "surrogateescape")


def _sha(*parts: str) -> str:
    hh = hashlib.sha1()
    for p in parts:
        hh.update(p.encode())
        hh.update(b"\0")
    return hh.hexdigest()[:12]


def build_model(schema: Schema, extra_cpp: str = "", pch: bool = True, root: Optional[str] = None) -> str:
    """Returns the model directory (contains vf_model.h[.gch], runtime headers, inc/ tree)."""
    header, source = gen._model(schema, extra_cpp)
    rt = "".join(open(os.path.join(MODEL_SRC, f)).read() for f in RT_FILES)
    key = _sha(header, rt, " ".join(CXXFLAGS), json.dumps([(c.accessor, c.headers) for c in schema.colls]), gen.__file__ and open(gen.__file__).read())
    root = root or BUILD
    d = os.path.join(root, f"model-{schema.backend}-{key}")
    if os.path.exists(os.path.join(d, "READY")):
        return d
    tmp = d + ".tmp%d" % os.getpid()
    shutil.rmtree(tmp, ignore_errors=True)
    os.makedirs(tmp)
    for f in RT_FILES:
        shutil.copy(os.path.join(MODEL_SRC, f), tmp)
    with open(os.path.join(tmp, "vf_model.h"), "w") as f:
        f.write(header)
    with open(os.path.join(tmp, "vf_model.cpp"), "w") as f:
        f.write(source)
    gen.write_include_tree(schema, os.path.join(tmp, "inc"))
    r = subprocess.run([CXX] + CXXFLAGS + ["-c", "vf_model.cpp", "-o", "vf_model.o"], cwd=tmp, capture_output=True, text=True)
    if r.returncode != 0:
        shutil.rmtree(tmp, ignore_errors=True)
        raise HarnessError("model source does not compile:\n" + r.stderr[:3000])
    if pch:
        r = subprocess.run([CXX] + CXXFLAGS + ["-x", "c++-header", "vf_model.h", "-o", "vf_model.h.gch"], cwd=tmp, capture_output=True, text=True)
        if r.returncode != 0:
            shutil.rmtree(tmp, ignore_errors=True)
            raise HarnessError("model header does not compile:\n" + r.stderr[:3000])
    open(os.path.join(tmp, "READY"), "w").write("ok")
    try:
        os.rename(tmp, d)
    except OSError:
        shutil.rmtree(tmp, ignore_errors=True)  # lost a race: another process built it
    return d


_std_cache: Dict[str, str] = {}


def std_model(backend: str) -> str:
    if backend not in _std_cache:
        _std_cache[backend] = build_model(standard_schema(backend))
    return _std_cache[backend]


class Compiled:
    def __init__(self, ok: bool, exe: Optional[str], stderr: str, workdir: str):
        self.ok, self.exe, self.stderr, self.workdir = ok, exe, stderr, workdir

    def cleanup(self):
        shutil.rmtree(self.workdir, ignore_errors=True)


def compile_package(files: Dict[str, str], backend: str, model_dir: str, extra_flags: List[str] = ()) -> Compiled:
    work = tempfile.mkdtemp(prefix="vf_cc_")
    if backend == "atlas":
        os.makedirs(os.path.join(work, "analysis"))
        open(os.path.join(work, "analysis", "query.h"), "w").write(files["query.h"])
        open(os.path.join(work, "query.cxx"), "w").write(files["query.cxx"])
        main = gen.ATLAS_MAIN
    else:
        open(os.path.join(work, "Analyzer.cc"), "w").write(files["Analyzer.cc"])
        main = gen.CMS_MAIN
    open(os.path.join(work, "main.cpp"), "w").write(main)
    cmd = [CXX] + CXXFLAGS + list(extra_flags) + ["-I", model_dir, "-I", os.path.join(model_dir, "inc"), "-I", work, "main.cpp", os.path.join(model_dir, "vf_model.o"), "-o", "job"]
    r = subprocess.run(cmd, cwd=work, capture_output=True, text=True)
    if r.returncode != 0:
        return Compiled(False, None, r.stderr, work)
    return Compiled(True, os.path.join(work, "job"), r.stderr, work)


def parse_output(text: str) -> dict:
    out = {"constructed": False, "initialized": None, "book": [], "booktrees": [], "consumes": [], "events": [], "ended": False, "pre": [], "harness_error": None}
    cur = None
    for line in text.split("\n"):
        if not line:
            continue
        parts = line.split(" ")
        tag = parts[0]
        if tag == "HARNESS-ERROR":
            out["harness_error"] = line
        elif tag == "CONSTRUCTED":
            out["constructed"] = True
        elif tag == "INITIALIZED":
            out["initialized"] = parts[1] == "1"
        elif tag == "BOOK" and len(parts) == 5:
            out["book"].append({"tree": unhex(parts[1]), "name": unhex(parts[2]), "type": unhex(parts[3]), "addr": parts[4], "when": "event" if cur is not None else "init"})
        elif tag == "BOOKTREE":
            out["booktrees"].append(unhex(parts[1]))
        elif tag == "CONSUMES":
            out["consumes"].append({"serial": int(parts[1]), "type": unhex(parts[2]), "tag": unhex(parts[3]), "when": "event" if cur is not None else "init"})
        elif tag == "EVENT":
            cur = {"id": int(parts[1]), "rows": [], "reqs": [], "nullderefs": [], "fault": None, "status_failure": False, "tokenuse": [], "other": []}
            out["events"].append(cur)
        elif tag == "END":
            out["ended"] = True
            cur = None
        elif tag == "ABORTED":
            out["aborted"] = True
        elif cur is None:
            out["pre"].append(line)
        elif tag == "ROW":
            cur["rows"].append((unhex(parts[1]), json.loads(" ".join(parts[2:]))))
        elif tag == "REQ":
            cur["reqs"].append((unhex(parts[1]), unhex(parts[2])))
        elif tag == "NULLDEREF":
            cur["nullderefs"].append(parts[1])
        elif tag == "FAULT":
            cur["fault"] = (unhex(parts[1]), unhex(parts[2]) if len(parts) > 2 else "")
        elif tag == "STATUS-FAILURE":
            cur["status_failure"] = True
        elif tag == "TOKENUSE":
            cur["tokenuse"].append(int(parts[1]))
        else:
            cur["other"].append(line)
    return out


def run_job_resume(exe: str, events_file: str, n_events: int, schedule: Optional[List[int]] = None) -> dict:
    """A fault / failed status aborts a real job.  The driver stops there; the remaining events of the
    schedule are processed by a fresh process and spliced in (out['restarts'] counts them)."""
    sched = list(schedule) if schedule is not None else list(range(n_events))
    total = None
    done = 0
    restarts = 0
    while True:
        out = run_job(exe, events_file, sched[done:]) if done < len(sched) else None
        if out is None:
            break
        if total is None:
            total = out
        else:
            total["events"].extend(out["events"])
            total["ended"] = out["ended"]
            total["crashed"] = total.get("crashed") or out.get("crashed")
        done += len(out["events"])
        if out.get("crashed") or not out.get("aborted") or not out["events"]:
            break
        restarts += 1
    total["restarts"] = restarts
    return total


def run_job(exe: str, events_file: str, schedule: Optional[List[int]] = None, timeout: float = 20.0) -> dict:
    cmd = [exe, events_file] + [str(i) for i in (schedule or [])]
    try:
        r = subprocess.run(cmd, capture_output=True, timeout=timeout)
    except subprocess.TimeoutExpired:
        return {"crashed": "timeout", "events": [], "ended": False, "book": [], "consumes": [], "booktrees": [], "pre": [], "constructed": False}
    out = parse_output(r.stdout.decode("utf-8", "replace"))
    out["returncode"] = r.returncode
    out["crashed"] = None if r.returncode == 0 else "exit %d" % r.returncode
    if out.get("harness_error") or r.returncode == 3:
        raise HarnessError("driver: " + str(out.get("harness_error")) + r.stderr.decode("utf-8", "replace")[:500])
    return out
