"""Random data-model schemas (classes, declared method signatures of every form, an event collection
declared through metadata, enums) - drawn by Hypothesis; used by C10 and C06.
Choices are ordered so that Hypothesis' simplest example is a RICH schema (links, dereference counts,
collections of pointers): the first schema of a run is never the trivial one."""
from __future__ import annotations

from hypothesis import strategies as st

from vf.model.schema import C, Coll, Enum, M, Schema


def _yes(draw, num=3, den=4):
    return draw(st.integers(0, den - 1)) < num


@st.composite
def random_schema(draw, backend: str, tag: str = "r"):
    ncls = draw(st.sampled_from([3, 4, 2]))
    ns = "myns"
    names = [f"{ns}::K{i}" for i in range(ncls)]
    classes = {}
    enums = [Enum(f"{ns}.K0", "Kind", ("A", "B", "C"), in_class=names[0])]
    if _yes(draw, 1, 2):
        # a namespace-level enum, one to four namespace levels deep
        enums.append(Enum(draw(st.sampled_from(["topns.inner.deep", "topns", "topns.inner", "topns.a.b.c"])), "Mode", ("X", "Y", "Z"), in_class=None))
    for i, cname in enumerate(names):
        ms = []
        for k in range(draw(st.sampled_from([3, 2]))):
            ctype = draw(st.sampled_from(["int", "float", "double", "bool", "double"]))
            declared = True if ctype != "double" else not _yes(draw, 1, 2)
            deref = draw(st.sampled_from([1, 0, 2, 0, 0])) if declared else 0
            ms.append(M(f"s{i}{k}", "num", ctype, declared=declared, deref=deref))
        if _yes(draw, 1, 2):
            ms.append(M(f"code{i}", "num", "short", declared=True, tree_type="int"))
        if i == 0:
            ms.append(M("kind", "num", "int", declared=True, enum=f"{ns}.K0.Kind", tree_type="int"))
            ms.append(M("kindCode", "echo", args=(f"enum:{ns}.K0.Kind",), echo="enum10"))
            if len(enums) > 1:
                ms.append(M("mode", "num", "int", declared=True, enum=enums[1].dotted, tree_type="int"))
        for j in range(i + 1, ncls):
            if _yes(draw, 2, 3):
                form = draw(st.sampled_from(["ptr-deref1", "ptr", "ptrptr", "val", "val-deref1", "ptr-deref2", "ptr"]))
                ptr = {"val": 0, "ptr": 1, "ptrptr": 2, "val-deref1": 0, "ptr-deref1": 1, "ptr-deref2": 1}[form]
                deref = {"val-deref1": 1, "ptr-deref1": 1, "ptr-deref2": 2}.get(form, 0)
                ms.append(M(f"link{i}{j}", "obj", cls=names[j], ptr=ptr, declared=True, deref=deref))
            if _yes(draw, 1, 2):
                ms.append(M(f"many{i}{j}", "objvec", cls=names[j], elem_ptr=draw(st.sampled_from([1, 0])), ptr=draw(st.sampled_from([1, 0])), declared=True,
                            deref=draw(st.sampled_from([0, 1, 0]))))
        if _yes(draw, 2, 3):
            ms.append(M(f"v{i}", "vec", draw(st.sampled_from(["float", "int", "double"])), ptr=draw(st.sampled_from([1, 0])), declared=True, deref=draw(st.sampled_from([0, 1, 0])),
                        const_decl=False))  # (const std::vector<T> declarations: reported by two hunters, not taken up - see DESIGN 6.2 - and not generated)
        classes[cname] = C(cname, ms)
    elem_ptr = backend == "atlas"
    coll = Coll("Things", f"{ns}::K0Container", names[0], (f"{ns}/K0Container.h",), ("MyNsLib",) if backend == "atlas" else (), elem_ptr=elem_ptr, builtin=False,
                banks=("things", "otherThings"))
    return Schema(backend, classes, [coll], f"rand-{backend}-{tag}", enums)
