"""Generators for the metadata-driven features (injected code blocks, job scripts, user C++ functions)."""
from __future__ import annotations

from hypothesis import strategies as st

FIELDS = ["body_includes", "header_includes", "private_members", "instance_initialization", "ctor_lines", "initialize_lines", "link_libraries"]


@st.composite
def valid_code_blocks(draw, backend: str, max_blocks=3):
    """inject_code blocks whose lines are valid C++ so that the package can be compiled and run.
    Block k owns member m_vf<k>; markers are printed from the constructor and initialize()."""
    n = draw(st.integers(0, max_blocks))
    blocks = []
    for k in range(n):
        b = {"metadata_type": "inject_code", "name": f"blk{k}"}
        if backend == "atlas":
            use = draw(st.sets(st.sampled_from(FIELDS), min_size=1))
            if "instance_initialization" in use or "ctor_lines" in use or "initialize_lines" in use:
                use.add("private_members")
            if "private_members" in use:
                b["private_members"] = [f"int m_vf{k};", f"int m_vf{k}b;"]
            if "instance_initialization" in use:
                b["instance_initialization"] = [f"m_vf{k}({k + 3})", f"m_vf{k}b(0)"]
            if "ctor_lines" in use:
                b["ctor_lines"] = [f"m_vf{k}b = m_vf{k}b + 1;", f'std::cout << "MARK ctor {k} " << m_vf{k}b << std::endl;']
            if "initialize_lines" in use:
                b["initialize_lines"] = [f"m_vf{k}b = m_vf{k}b + 10;", f'std::cout << "MARK init {k} " << m_vf{k}b << std::endl;']
            if "body_includes" in use:
                b["body_includes"] = draw(st.sampled_from([["vf_extra_a.h"], ["vf_extra_a.h", "vf_extra_b.h"]]))
            if "header_includes" in use:
                b["header_includes"] = ["vf_extra_b.h"]
            if "link_libraries" in use:
                b["link_libraries"] = draw(st.sampled_from([["VfLibA"], ["VfLibA", "VfLibB"]]))
        else:
            b["body_includes"] = draw(st.sampled_from([["vf_extra_a.h"], ["vf_extra_a.h", "vf_extra_b.h"]]))
        blocks.append(b)
    return blocks


@st.composite
def job_scripts(draw, max_blocks=3):
    n = draw(st.integers(0, max_blocks))
    out = []
    for k in range(n):
        deps = [f"js{d}" for d in range(k) if draw(st.booleans())]
        out.append({"metadata_type": "add_job_script", "name": f"js{k}", "script": [f"vf_line_{k}_a = {k}", f"vf_line_{k}_b = vf_line_{k}_a + 1"], "depends_on": deps})
    return draw(st.permutations(out)) if out else out


def simple_cpp_functions():
    """two user C++ functions returning double: (metadata, (python name, arity), python meaning)"""
    f1 = {"metadata_type": "add_cpp_function", "name": "vf_lin", "include_files": [], "arguments": ["x", "y"],
          "code": ["double t1 = x * 2;", "double result = t1 + y;"], "return_type": "double"}
    f2 = {"metadata_type": "add_cpp_function", "name": "vf_sq", "include_files": ["cmath"], "arguments": ["val"],
          "code": ["double my_r = std::sqrt(val * val) + 1;"], "result_name": "my_r", "return_type": "double"}
    # a function that takes nothing from the query and reads per-event framework state (the model's current event id):
    # opaque to the translator, different for every event
    f3 = {"metadata_type": "add_cpp_function", "name": "vf_evt", "include_files": [], "arguments": [],
          "code": ["double result = (double) (vf::current_event()->id % 97);"], "return_type": "double"}
    env = {"vf_lin": lambda x, y: x * 2 + y, "vf_sq": lambda v: abs(v) + 1}
    return [f1, f2, f3], (("vf_lin", 2), ("vf_sq", 1), ("vf_evt", 0)), env
