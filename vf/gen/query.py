"""Typed query generator: builds well-typed func_adl query TEXT over a Schema by construction.

Every random choice is a Hypothesis draw.  The generator tracks, for every expression, its
value kind (int / float / double / bool), so that column-type expectations can be derived from
the property statements, and a set of feature labels for the evidence histogram.
"""
from __future__ import annotations

from dataclasses import dataclass, field
from typing import Dict, List, Optional, Sequence, Set, Tuple

from hypothesis import strategies as st

from vf.model.schema import Coll, M, Schema, collection_metadata, enum_metadata, method_metadata

WIDTH = {"bool": -1, "int": 0, "float": 1, "double": 2}


def wider(a: str, b: str) -> str:
    return a if WIDTH[a] >= WIDTH[b] else b


@dataclass(frozen=True)
class TNum:
    kind: str  # int | float | double | bool


@dataclass(frozen=True)
class TObj:
    cls: str


@dataclass(frozen=True)
class TSeq:
    elem: object


@dataclass(frozen=True)
class TEvt:
    pass


@dataclass(frozen=True)
class TTup:
    items: tuple
    keys: Optional[tuple] = None  # dict if not None


@dataclass
class Features:
    """What the grammar may produce (checks switch features off to steer around known findings)."""

    first: bool = True
    index: bool = True
    range_: bool = True
    minmax: bool = True
    mod: bool = False  # '%' (only int % int with non-negative operands when on)
    pow_: bool = True
    math: bool = True
    ifexp: bool = True
    boolops: bool = True
    aggregate: bool = True
    closures: bool = True
    plumbing: bool = True
    where_top: bool = True
    selectmany_top: bool = True
    nullable: bool = False  # follow nullable links (C04)
    unary: bool = True
    int_div: bool = True  # int / int
    deltar: bool = True
    seq2d: bool = True
    user_funcs: Tuple = ()  # (name, arity) of injected C++ functions returning double
    missing_bank: bool = False
    guards: bool = False  # C04: put partial operations under guards
    bool_arith: bool = True  # a comparison / bool method as an operand of + - *
    explicit_ttree: bool = True
    echo: bool = True
    follow_links: int = 0  # follow object-valued methods up to this many steps (C10)
    bare_columns: bool = True  # a vector-valued method as it is as a column / as the sequence of a First-of-sequences
    flat_aggregates: bool = True  # aggregates / First over a sequence flattened by an inner SelectMany
    focus: Tuple[str, ...] = ()  # rare productions a focused batch takes whenever they are possible ("flat3", "mix")
    math_names: Tuple[str, ...] = (
        "sin", "cos", "tanh", "atan", "exp2small", "sqrtabs", "log1pabs", "atan2", "hypot", "fabs", "abs", "cbrt", "erf", "fmax", "fmin",
        "copysign", "fdim", "ceil",
    )


class QGen:
    def __init__(self, draw, schema: Schema, feat: Features, fuel: int = 4):
        self.draw = draw
        self.s = schema
        self.f = feat
        self.labels: Set[str] = set()
        self.uses: List[Tuple[str, str]] = []
        self.nvar = 0
        self.nops = 0
        self.excluded: Dict[str, int] = {}
        self._bare = False
        self.safe = 0  # >0: no partial operations (First / index) are generated
        self._in_arg = False
        self.noflat = 0  # >0: no inner SelectMany (aggregate / First over a flattened sequence is a recorded finding)
        self.nowhere: Set[str] = set()  # sequence variables that must not be filtered again (recorded finding handed-on-filtered-sequence)

    # ------------------------------------------------------------- helpers
    def pick(self, seq):
        return self.draw(st.sampled_from(list(seq)))

    def chance(self, num: int, den: int) -> bool:
        return self.draw(st.integers(0, den - 1)) < num

    def weighted(self, options: Sequence[Tuple[int, str]]) -> str:
        total = sum(w for w, _ in options)
        k = self.draw(st.integers(0, total - 1))
        for w, name in options:
            if k < w:
                return name
            k -= w
        return options[-1][1]

    def newvar(self, scope, prefer: str = "x") -> str:
        names = [n for n, _ in scope]
        if scope and self.chance(1, 8):
            # shadow a non-event variable
            cands = [n for n, t in scope if isinstance(t, (TObj, TNum)) and not n.startswith("__")]
            if cands:
                self.labels.add("shadowing")
                return self.pick(cands)
        self.nvar += 1
        base = prefer if self.chance(2, 3) else self.pick(["a", "b", "p", "q"])
        n = base
        k = 1
        while n in names:
            k += 1
            n = f"{base}{k}"
        return n

    def bind(self, scope, name, t):
        return [(n, ty) for n, ty in scope if n != name] + [(name, t)]

    def vars_of(self, scope, pred):
        return [(n, t) for n, t in scope if pred(t)]

    def lit_int(self) -> str:
        return str(self.pick([0, 1, 2, 3, 5, 7, 10]))

    def lit_dbl(self) -> str:
        return self.pick(["0.5", "1.5", "2.0", "0.25", "10.0", "3.75", "100.0"])

    # ------------------------------------------------------------- objects
    def obj_sources(self, scope, fuel):
        """list of (text, cls) object expressions available cheaply: object variables and (chains of) object-valued methods"""
        out = [(n, t.cls) for n, t in scope if isinstance(t, TObj)]
        if self.f.follow_links:
            frontier = list(out)
            for _ in range(self.f.follow_links):
                nxt = []
                for txt, cls in frontier:
                    for m in self.s.classes[cls].methods:
                        if m.kind == "obj" and (self.f.nullable or not m.nullable) and not m.args:
                            nxt.append((f"{txt}.{m.name}()", m.cls))
                            self.labels.add("object-link")
                out += nxt
                frontier = nxt
        return out

    def obj(self, scope, fuel) -> Optional[Tuple[str, str]]:
        srcs = self.obj_sources(scope, fuel)
        evs = self.vars_of(scope, lambda t: isinstance(t, TEvt))
        singles = [c for c in self.s.colls if c.singleton]
        opts = []
        if srcs:
            opts.append((6, "var"))
        if evs and singles:
            opts.append((1, "singleton"))
        if self.f.first and not self.safe and fuel > 0 and (evs or any(isinstance(t, TSeq) for _, t in scope) or srcs):
            opts.append((1, "first"))
        if not opts:
            return None
        k = self.weighted(opts)
        if k == "var":
            return self.pick(srcs)
        if k == "singleton":
            c = self.pick(singles)
            e = self.pick(evs)[0]
            bank = self.pick(c.banks)
            self.uses.append((c.accessor, bank))
            self.labels.add("singleton")
            return (f"{e}.{c.accessor}({bank!r})", c.element)
        r = self.objseq(scope, fuel - 1)
        if r is None:
            return self.pick(srcs) if srcs else None
        self.labels.add("First")
        self.labels.add("First-object")
        self.nops += 1
        return (f"{r[0]}.First()", r[1])

    def objseq(self, scope, fuel) -> Optional[Tuple[str, str]]:
        evs = self.vars_of(scope, lambda t: isinstance(t, TEvt))
        seqvars = [(n, t.elem.cls) for n, t in scope if isinstance(t, TSeq) and isinstance(t.elem, TObj)]
        objs = self.obj_sources(scope, fuel)
        colls = [c for c in self.s.colls if not c.singleton]
        opts = []
        if evs and colls:
            opts.append((6, "coll"))
        if seqvars:
            opts.append((4, "var"))
        ov = [(txt, cls, m) for txt, cls in objs for m in self.s.classes[cls].methods if m.kind == "objvec"]
        if ov:
            opts.append((3, "method"))
        if not opts:
            return None
        k = self.weighted(opts)
        if k == "coll":
            c = self.pick(colls)
            e = self.pick(evs)[0]
            bank = self.pick(c.banks)
            self.uses.append((c.accessor, bank))
            base = (f"{e}.{c.accessor}({bank!r})", c.element)
        elif k == "var":
            base = self.pick(seqvars)
        else:
            txt, cls, m = self.pick(ov)
            self.labels.add("objvec-method")
            base = (f"{txt}.{m.name}()", m.cls)
        # optional Where
        if base[0] in self.nowhere:
            self.excluded["handed-on-filtered-sequence"] = self.excluded.get("handed-on-filtered-sequence", 0) + 1
        elif fuel > 0 and self.chance(1, 3):
            v = self.newvar(scope, "o")
            b = self.boolean(self.bind(scope, v, TObj(base[1])), fuel - 1)
            self.labels.add("Where-inner")
            self.nops += 1
            base = (f"{base[0]}.Where(lambda {v}: {b})", base[1])
        return base

    # ------------------------------------------------------------- numeric sequences
    def numseq(self, scope, fuel) -> Optional[Tuple[str, str]]:
        """(text, elem kind) for a sequence of numbers; self._bare tells whether the text is a bare
        collection-valued method call (no sequence operator applied)"""
        r = self._numseq(scope, fuel)
        return r

    def unbare(self, scope, r):
        """A collection-valued method used directly as an output column is a recorded finding
        (AssertionError 'Do not know how to loop over'): give it a non-identity Select."""
        if r is not None and self._bare and getattr(self.f, "bare_columns", True) and self.chance(2, 3):
            # a vector-valued method as it is - no sequence operator applied - where a sequence is expected
            self.labels.add("bare-collection-as-sequence")
            self._bare = False
            return r
        if r is not None and self._bare:
            v = self.newvar(scope, "w")
            self._bare = False
            return (f"{r[0]}.Select(lambda {v}: {v} * 1)", r[1])
        return r

    def _numseq(self, scope, fuel) -> Optional[Tuple[str, str]]:
        objs = self.obj_sources(scope, fuel)
        seqvars = [(n, t.elem.kind) for n, t in scope if isinstance(t, TSeq) and isinstance(t.elem, TNum) and t.elem.kind != "bool"]
        vm = [(txt, m) for txt, cls in objs for m in self.s.classes[cls].methods if m.kind == "vec"]
        opts = [(6, "select")]
        if seqvars:
            opts.append((4, "var"))
        if vm:
            opts.append((3, "vecmethod"))
        if self.f.range_ and fuel > 0:
            opts.append((1, "range"))
        if fuel > 0 and self.f.closures and (vm or objs):
            opts.append((5, "selfjoin"))
        if fuel > 1 or (fuel > 0 and self.noflat and getattr(self.f, "flat_aggregates", True)):
            if self.noflat and not getattr(self.f, "flat_aggregates", True):
                self.excluded["aggregate-over-inner-SelectMany"] = self.excluded.get("aggregate-over-inner-SelectMany", 0) + 1
            else:
                opts.append((5 if self.noflat else 2, "selectmany"))
        k = self.weighted(opts)
        base = None
        self._bare = False
        bare = False
        if k == "select":
            os_ = self.objseq(scope, fuel - 1)
            if os_ is not None:
                v = self.newvar(scope, "j")
                t, kind = self.num(self.bind(scope, v, TObj(os_[1])), max(fuel - 1, 0))
                self.nops += 1
                base = (f"{os_[0]}.Select(lambda {v}: {t})", kind)
        elif k == "var":
            base = self.pick(seqvars)
        elif k == "vecmethod":
            txt, m = self.pick(vm)
            self.labels.add("vec-method")
            base = (f"{txt}.{m.name}()", m.ctype)
            bare = True
        elif k == "range":
            lo = self.pick([0, 0, 1, 2])
            hi = lo + self.pick([0, 1, 2, 3])
            self.labels.add("Range")
            self.nops += 1
            base = (f"Range({lo}, {hi})", "int")
            if self.chance(1, 2):
                # computed bounds (possibly lo > hi: an empty range)
                self.noflat += 1
                os_ = self.objseq(scope, 0)
                self.noflat -= 1
                if os_ is not None:
                    self.labels.add("Range-computed-bound")
                    base = (f"Range({lo}, {os_[0]}.Count())", "int")
        elif k == "selfjoin":
            # the same collection expression iterated again inside a loop over it (closure over the outer element)
            used_names = {n for n, _ in scope}
            a = "sa"
            while a in used_names:
                a += "a"
            b = "sb"
            while b in used_names or b == a:
                b += "b"
            how = self.pick(["Count", "Sum", "Count"])
            if vm and self.chance(1, 2):
                txt, m = self.pick(vm)
                S = f"{txt}.{m.name}()"
                cmp_ = self.pick([">", "<", ">=", "!="])
                inner = f"{S}.Where(lambda {b}: {b} {cmp_} {a})"
                base = (f"{S}.Select(lambda {a}: {inner}.{how}())", "int" if how == "Count" else m.ctype)
                self.labels.add("self-join")
                self.nops += 3
            else:
                ov_ = [(t_, c_, m_) for t_, c_ in objs for m_ in self.s.classes[c_].methods if m_.kind == "objvec"]
                if ov_:
                    t_, c_, m_ = self.pick(ov_)
                    S = f"{t_}.{m_.name}()"
                    nm = [x for x in self.s.classes[m_.cls].methods if x.kind == "num" and x.ctype != "bool" and not x.enum and not x.tree_type]
                    if nm:
                        f1 = self.pick(nm)
                        cmp_ = self.pick([">", "<", ">=", "!="])
                        inner = f"{S}.Where(lambda {b}: {b}.{f1.name}() {cmp_} {a}.{f1.name}())"
                        base = (f"{S}.Select(lambda {a}: {inner}.Count())", "int")
                        self.labels.add("self-join")
                        self.nops += 3
        elif k == "selectmany":
            os_ = self.objseq(scope, fuel - 1)
            deep3 = [(ov, m) for ov in self.s.classes[os_[1]].methods if ov.kind == "objvec" for m in self.s.classes[ov.cls].methods if m.kind == "vec"] if os_ is not None else []
            if deep3 and self.chance(1, 2):
                # flattened over THREE loops: a SelectMany of a SelectMany (chained, or nested - func_adl turns the chain into the nested form)
                ov, m = self.pick(deep3)
                v = self.newvar(scope, "j")
                w = self.newvar(self.bind(scope, v, TObj(os_[1])), "k")
                self.labels.update({"SelectMany-inner", "SelectMany-three-loops"})
                if self.noflat:
                    self.labels.add("aggregate-or-First-over-flattened-sequence")
                self.nops += 2
                if self.chance(1, 2):
                    base = (f"{os_[0]}.SelectMany(lambda {v}: {v}.{ov.name}()).SelectMany(lambda {w}: {w}.{m.name}())", m.ctype)
                else:
                    base = (f"{os_[0]}.SelectMany(lambda {v}: {v}.{ov.name}().SelectMany(lambda {w}: {w}.{m.name}()))", m.ctype)
            elif os_ is not None:
                vms = [m for m in self.s.classes[os_[1]].methods if m.kind == "vec"]
                if vms:
                    m = self.pick(vms)
                    v = self.newvar(scope, "j")
                    self.labels.add("SelectMany-inner")
                    if self.noflat:
                        self.labels.add("aggregate-or-First-over-flattened-sequence")
                    self.nops += 1
                    base = (f"{os_[0]}.SelectMany(lambda {v}: {v}.{m.name}())", m.ctype)
        if base is None:
            if seqvars:
                base = self.pick(seqvars)
            elif vm:
                txt, m = self.pick(vm)
                base = (f"{txt}.{m.name}()", m.ctype)
                bare = True
            else:
                os_ = self.objseq(scope, 0)
                if os_ is None:
                    return None
                v = self.newvar(scope, "j")
                t, kind = self.num(self.bind(scope, v, TObj(os_[1])), 0)
                base = (f"{os_[0]}.Select(lambda {v}: {t})", kind)
        # optional Where / Select on numbers
        if base[0] in self.nowhere or any(base[0].startswith(v + ".") for v in self.nowhere):
            # (a Where behind a Select of the sequence is moved in front of the Select by func_adl: it filters the sequence itself)
            self.excluded["handed-on-filtered-sequence"] = self.excluded.get("handed-on-filtered-sequence", 0) + 1
        elif fuel > 0 and self.chance(1, 4):
            v = self.newvar(scope, "v")
            b = self.boolean(self.bind(scope, v, TNum(base[1])), fuel - 1)
            self.labels.add("Where-numbers")
            self.nops += 1
            base = (f"{base[0]}.Where(lambda {v}: {b})", base[1])
            bare = False
        if fuel > 0 and self.chance(1, 5):
            v = self.newvar(scope, "v")
            t, kind = self.num(self.bind(scope, v, TNum(base[1])), fuel - 1)
            if t == v:
                t = f"{v} * 1"  # func_adl removes identity Selects
            self.labels.add("Select-numbers")
            self.nops += 1
            base = (f"{base[0]}.Select(lambda {v}: {t})", kind)
            bare = False
        self._bare = bare
        return base

    # ------------------------------------------------------------- numbers
    def num_leaf(self, scope) -> Tuple[str, str]:
        objs = self.obj_sources(scope, 0)
        nums = [(n, t.kind) for n, t in scope if isinstance(t, TNum) and t.kind != "bool"]
        opts = [(2, "lit")]
        if objs:
            opts.append((8, "method"))
        if nums:
            opts.append((6, "var"))
        k = self.weighted(opts)
        if k == "var":
            return self.pick(nums)
        if k == "method":
            txt, cls = self.pick(objs)
            ms = [m for m in self.s.classes[cls].methods if (m.kind == "num" and m.ctype != "bool" and not m.enum and not m.tree_type) or (m.kind == "echo" and self.f.echo and m.echo in ("id", "scaled", "enum10", "mix") and m.args[0] != "bool")]
            tt = [m for m in self.s.classes[cls].methods if m.kind == "num" and m.tree_type and not m.enum and m.ctype in ("int", "float", "double")]
            if tt and self.chance(1, 6):
                # a method with a declared tree type, inside arithmetic: the tree type belongs to the method's own leaf, not to what is computed from it
                m = self.pick(tt)
                self.labels.add("tree_type-operand")
                form = self.pick(["({x} * 1)", "(1 * {x})", "({x} + 0)", "(-{x})", "({x} - 0)"])
                return (form.format(x=f"{txt}.{m.name}()"), m.ctype)
            if ms:
                m = self.pick(ms)
                two = [x for x in ms if x.kind == "echo" and x.echo == "mix"]
                if two and not self._in_arg and (self.chance(1, 3) or "mix" in self.f.focus):
                    m = two[0]
                if m.kind == "num":
                    if m.member:
                        return (f"{txt}.{m.name}", m.ctype if m.typed else "double")
                    return (f"{txt}.{m.name}()", m.ctype if m.typed else "double")
                self.labels.add("method-with-arg")
                if m.echo == "mix":
                    # two arguments: one computed in a block of its own (First() of a vector, an aggregate), the other at hand - in either order
                    deep = None
                    vms_ = [x for x in self.s.classes[cls].methods if x.kind == "vec"]
                    nms_ = [x for x in self.s.classes[cls].methods if x.kind == "num" and not x.enum and not x.tree_type and not x.member and x.ctype != "bool"]
                    if vms_ and nms_ and not self._in_arg and self.chance(2, 3):
                        # ... the deep one coded inside a loop over a vector of this very object, the other a plain method of the object
                        vm_ = self.pick(vms_)
                        if self.f.first and not self.safe and self.chance(2, 3):
                            deep = f"{txt}.{vm_.name}().First()"
                            self.labels.add("First")
                        else:
                            deep = f"{txt}.{vm_.name}().Sum()"
                            self.labels.add("Sum")
                        flat_ = f"{txt}.{self.pick(nms_).name}()"
                        self.labels.add("method-with-two-args")
                        a0, a1 = (deep, flat_) if self.chance(2, 3) else (flat_, deep)
                        return (f"{txt}.{m.name}({a0}, {a1})", "double")
                    if not self.safe and not self._in_arg:
                        self._in_arg = True
                        try:
                            deep, _k = self.num(scope, 1)
                        finally:
                            self._in_arg = False
                    flat_, _k2 = self.num_leaf(scope) if not self._in_arg else (self.lit_dbl(), "double")
                    if deep is None:
                        deep = self.lit_dbl()
                    self.labels.add("method-with-two-args")
                    a0, a1 = (deep, flat_) if self.chance(1, 2) else (flat_, deep)
                    return (f"{txt}.{m.name}({a0}, {a1})", "double")
                if m.args[0].startswith("enum:"):
                    e = self.s.enum(m.args[0][5:])
                    self.labels.add("enum-argument")
                    return (f"{txt}.{m.name}({e.dotted}.{self.pick(e.values)})", "double")
                arg = self.lit_int() if m.args[0] == "int" else self.lit_dbl()
                if m.args[0] != "int" and not self.safe and not self._in_arg and self.chance(1, 3):
                    # an argument that is computed in a block of its own (First() of a vector, an aggregate, a conditional)
                    self._in_arg = True
                    try:
                        arg, _k = self.num(scope, 1)
                    finally:
                        self._in_arg = False
                    self.labels.add("method-with-computed-arg")
                return (f"{txt}.{m.name}({arg})", "double")
        if self.chance(1, 2):
            return (self.lit_int(), "int")
        return (self.lit_dbl(), "double")

    def nonzero(self, scope, fuel) -> Tuple[str, str]:
        """a number constructed to be >= 1 in magnitude (denominators)"""
        k = self.weighted([(3, "sq"), (2, "count"), (2, "lit"), (1, "abs"), (2, "prod"), (1, "absbool")])
        if k == "absbool":
            # abs of a truth value is the integer 0 / 1
            self.labels.add("math")
            return (f"(abs({self.boolean(scope, 0)}) + {self.pick(['1', '2', '100'])})", "int")
        if k == "lit":
            return (self.pick(["2", "4", "0.5", "3", "8.0"]), "int")
        if k == "count":
            os_ = self.objseq(scope, 0)
            if os_ is not None:
                self.nops += 1
                self.labels.add("Count")
                return (f"({os_[0]}.Count() + 1)", "int")
        t, kind = self.num(scope, max(fuel - 1, 0))
        if k == "abs":
            self.labels.add("math")
            return (f"(abs({t}) + 1)", kind if kind == "int" else "double")
        if k == "prod":
            # a bare product (or quotient) as the whole denominator: a / (b * c) is not a / b * c
            lit = self.pick(["2", "4", "0.5", "3"])
            op = self.pick(["*", "*", "/"])
            return (f"({lit} {op} ({t} * {t} + 1))", "int" if (kind == "int" and op == "*" and "." not in lit) else "double")
        return (f"({t} * {t} + 1)", kind)

    def num(self, scope, fuel) -> Tuple[str, str]:
        if fuel <= 0:
            return self.num_leaf(scope)
        f = self.f
        opts = [(5, "leaf"), (6, "bin")]
        if f.aggregate:
            opts.append((4, "agg"))
        if f.ifexp:
            opts.append((2, "ifexp"))
        if f.math:
            opts.append((2, "math"))
        if f.unary:
            opts.append((1, "neg"))
        if f.first and not self.safe:
            opts.append((1, "first"))
        if f.index and not self.safe:
            opts.append((1, "index"))
        if f.pow_:
            opts.append((1, "pow"))
        if f.deltar and self.s.backend == "atlas" or f.deltar:
            opts.append((1, "deltar"))
        if f.user_funcs:
            opts.append((2, "ufunc"))
        k = self.weighted(opts)
        if k == "leaf":
            return self.num_leaf(scope)
        self.nops += 1
        if k == "bin":
            a, ka = self.num(scope, fuel - 1)
            op = self.weighted([(4, "+"), (3, "-"), (4, "*"), (3, "/")] + ([(2, "%")] if f.mod else []))
            if op == "/":
                b, kb = self.nonzero(scope, fuel - 1)
                if ka == "int" and kb == "int":
                    if not f.int_div:
                        self.excluded["int-div"] = self.excluded.get("int-div", 0) + 1
                        return (f"({a} / 2.0)", "double")
                    self.labels.add("int/int")
                self.labels.add("div")
                return (f"({a} / {b})", "double")
            if op == "%":
                self.labels.add("mod")
                os_ = self.objseq(scope, 0)
                left = f"{os_[0]}.Count()" if os_ else self.lit_int()
                return (f"({left} % {self.pick(['2', '3', '5'])})", "int")
            b, kb = self.num(scope, fuel - 1)
            self.labels.add("arith")
            if getattr(f, "bool_arith", True) and self.chance(1, 8):
                # a truth value as an operand: it counts as the integer 0 / 1
                c = self.boolean(scope, fuel - 1)
                self.labels.add("bool-operand")
                return (f"({c} {op} {b})", wider("int", kb)) if self.chance(1, 2) else (f"({a} {op} {c})", wider(ka, "int"))
            return (f"({a} {op} {b})", wider(ka, kb))
        if k == "agg":
            return self.aggregate(scope, fuel)
        if k == "ifexp":
            c = self.boolean(scope, fuel - 1)
            if self.chance(1, 3):
                # a test that needs statements of its own (a loop): an aggregate, a Range count or a First()
                self.noflat += 1
                r = self.numseq(scope, 0)
                self.noflat -= 1
                if r is not None:
                    how = self.weighted([(3, "count"), (2, "sum"), (2, "first")] if (f.first and not self.safe) else [(3, "count"), (2, "sum")])
                    self.labels.add("ifexp-test-with-statements")
                    if how == "first":
                        self.labels.add("First")
                    c = {"count": f"({r[0]}.Count() > {self.pick(['0', '1', '2'])})", "sum": f"({r[0]}.Sum() > {self.pick(['0', '1.5', '10'])})",
                         "first": f"({r[0]}.First() > {self.pick(['0', '1.5', '10'])})"}[how]
            a, ka = self.num(scope, fuel - 1)
            b, kb = self.num(scope, fuel - 1)
            if f.first and not self.safe and self.chance(1, 4):
                # an arm that needs a block of its own: First() of a sequence (a loop with an if inside it)
                self.noflat += 1
                r = self.numseq(scope, 0)
                self.noflat -= 1
                if r is not None:
                    self.labels.add("First")
                    self.labels.add("ifexp-arm-with-First")
                    if self.chance(1, 2):
                        a = f"{r[0]}.First()"
                    else:
                        b = f"{r[0]}.First()"
            self.labels.add("ifexp")
            return (f"({a} if {c} else {b})", "double")
        if k == "math":
            return self.mathfn(scope, fuel)
        if k == "neg":
            a, ka = self.num(scope, fuel - 1)
            self.labels.add("unary-minus")
            return (f"(-{a})" if not a.lstrip("(").startswith("-") and not a[0].isdigit() else f"(0 - {a})", ka)
        if k == "first":
            self.noflat += 1
            r = self.numseq(scope, fuel - 1)
            self.noflat -= 1
            if r is None:
                return self.num_leaf(scope)
            self.labels.add("First")
            if fuel > 1 and self.chance(1, 4):
                # an aggregate over the first element of a sequence of sequences
                os_ = self.objseq(scope, 0)
                if os_ is not None:
                    v = self.newvar(scope, "j")
                    self.noflat += 1
                    inner = self.unbare(self.bind(scope, v, TObj(os_[1])), self.numseq(self.bind(scope, v, TObj(os_[1])), 0))
                    self.noflat -= 1
                    if inner is not None:
                        self.labels.add("First-of-sequences")
                        self.nops += 2
                        agg = self.pick(["Count()", "Sum()", "First()"])
                        return (f"{os_[0]}.Select(lambda {v}: {inner[0]}).First().{agg}", "int" if agg == "Count()" else inner[1])
            return (f"{r[0]}.First()", r[1])
        if k == "index":
            objs = self.obj_sources(scope, fuel)
            vm = [(txt, m) for txt, cls in objs for m in self.s.classes[cls].methods if m.kind == "vec"]
            if not vm:
                return self.num_leaf(scope)
            txt, m = self.pick(vm)
            self.labels.add("index")
            return (f"{txt}.{m.name}()[{self.pick([0, 0, 1, 2])}]", m.ctype)
        if k == "pow":
            a, ka = self.num(scope, fuel - 1)
            self.labels.add("pow")
            return (f"({a} ** {self.pick(['2', '3', '2.0', '0'])})", "double")
        if k == "deltar":
            objs = [o for o in self.obj_sources(scope, fuel) if self.s.classes[o[1]].method("eta") and self.s.classes[o[1]].method("phi")]
            if len(objs) >= 1:
                a = self.pick(objs)[0]
                b = self.pick(objs)[0]
                self.labels.add("DeltaR")
                return (f"DeltaR({a}.eta(), {a}.phi(), {b}.eta(), {b}.phi())", "double")
            return self.num_leaf(scope)
        if k == "ufunc":
            name, arity = self.pick(f.user_funcs)
            args = [self.num(scope, fuel - 1)[0] for _ in range(arity)]
            self.labels.add("user-function")
            return (f"{name}({', '.join(args)})", "double")
        return self.num_leaf(scope)

    def lambda_twice(self, scope, fuel) -> Tuple[str, str]:
        """a lambda bound to a name and invoked twice with different arguments (one lambda node, two evaluations).  Only as a column of its own:
        behind a further Select / Where, or inside a value handed on through tuple / dict plumbing, func_adl itself inlines the two calls by
        substituting into the ONE shared lambda body in place (recorded finding lambda-invoked-twice-inlined)"""
        # a lambda bound to a name and invoked twice with different arguments (one lambda node, two evaluations)
        a, ka = self.num(scope, fuel - 1)
        b, kb = self.num(scope, 0)
        names = {n for n, _ in scope}
        g_, x_ = "hg", "hx"
        while g_ in names:
            g_ += "g"
        while x_ in names or x_ == g_:
            x_ += "x"
        body = self.pick([f"{x_} * {x_} + 1", f"{x_} * 2", f"abs({x_}) + 0.5", f"({x_} if {x_} > 1 else 0 - {x_})"])
        comb = self.pick(["+", "-", "*"])
        self.labels.add("lambda-invoked-twice")
        self.nops += 2
        # the kind of one call: the argument's own kind for the arithmetic bodies (int and float stay what they are), double for the others
        one = lambda k_: "double" if ("0.5" in body or "if" in body) else wider(k_ if k_ != "bool" else "int", "int")
        return (f"(lambda {g_}: {g_}({a}) {comb} {g_}({b}))(lambda {x_}: {body})", wider(one(ka), one(kb)))

    def aggregate(self, scope, fuel) -> Tuple[str, str]:
        f = self.f
        opts = [(4, "count"), (4, "sum"), (3, "agg")]
        evs_ = self.vars_of(scope, lambda t: isinstance(t, TEvt))
        flat3 = [(c, ov, m) for c in self.s.colls if not c.singleton for ov in self.s.classes[c.element].methods if ov.kind == "objvec"
                 for m in self.s.classes[ov.cls].methods if m.kind == "vec"] if (evs_ and getattr(f, "flat_aggregates", True)) else []
        if flat3:
            opts.append((2, "flat3"))
        if f.minmax:
            opts.append((2, "minmax"))
        if f.seq2d and not self.noflat:
            opts.append((2, "seqseq"))
        k = self.weighted(opts)
        if flat3 and "flat3" in f.focus:
            k = "flat3"
        if k == "flat3":
            # an aggregate / First over a sequence flattened over THREE loops (a SelectMany of a SelectMany, chained or nested)
            c, ov, m = self.pick(flat3)
            b = self.pick(c.banks)
            self.uses.append((c.accessor, b))
            src = f"{self.pick(evs_)[0]}.{c.accessor}({b!r})"
            names = {n for n, _ in scope}
            v, w = "fj", "fk"
            while v in names:
                v += "j"
            while w in names or w == v:
                w += "k"
            flat = (f"{src}.SelectMany(lambda {v}: {v}.{ov.name}()).SelectMany(lambda {w}: {w}.{m.name}())" if self.chance(1, 2)
                    else f"{src}.SelectMany(lambda {v}: {v}.{ov.name}().SelectMany(lambda {w}: {w}.{m.name}()))")
            self.labels.update({"SelectMany-inner", "SelectMany-three-loops", "aggregate-or-First-over-flattened-sequence"})
            self.nops += 3
            how = self.pick(["Sum", "Count", "Agg"] + (["First"] if (f.first and not self.safe) else []))
            if how == "Count":
                self.labels.add("Count")
                return (f"{flat}.Count()", "int")
            if how == "Sum":
                self.labels.add("Sum")
                return (f"{flat}.Sum()", m.ctype)
            if how == "First":
                self.labels.add("First")
                return (f"{flat}.First()", m.ctype)
            self.labels.add("Aggregate")
            return (f"{flat}.Aggregate(0.5, lambda facc, fv: facc + fv * 2)", "double")
        if k == "seqseq":
            # an aggregate over a sequence whose ELEMENTS are sequences (no flattening): how many there are, how many pass a test, a fold over them
            os_ = self.objseq(scope, 0)
            if os_ is not None:
                v = self.newvar(scope, "j")
                sc2 = self.bind(scope, v, TObj(os_[1]))
                self.noflat += 1
                self.safe += 1
                inner = self.unbare(sc2, self.numseq(sc2, 1 if fuel > 1 else 0))
                self.safe -= 1
                self.noflat -= 1
                if inner is not None:
                    ss = f"{os_[0]}.Select(lambda {v}: {inner[0]})"
                    self.labels.add("aggregate-over-sequence-of-sequences")
                    self.nops += 3
                    how = self.pick(["count", "where-count", "fold-sum", "fold-count"])
                    if how == "where-count" and any(os_[0] == v_ or os_[0].startswith(v_ + ".") for v_ in self.nowhere):
                        # (a Where behind the Select is moved in front of it by func_adl: the recorded handed-on-filtered-sequence finding)
                        self.excluded["handed-on-filtered-sequence"] = self.excluded.get("handed-on-filtered-sequence", 0) + 1
                        how = "count"
                    if how == "count":
                        self.labels.add("Count")
                        return (f"{ss}.Count()", "int")
                    if how == "where-count":
                        self.labels.add("Count")
                        return (f"{ss}.Where(lambda ss1: ss1.Count() > {self.pick(['0', '1'])}).Count()", "int")
                    self.labels.add("Aggregate")
                    if how == "fold-sum":
                        return (f"{ss}.Aggregate(0.0, lambda sacc, ss1: sacc + ss1.Sum())", "double")
                    return (f"{ss}.Aggregate(0, lambda sacc, ss1: sacc + ss1.Count())", "int")
            k = "count"
        if k == "count":
            self.noflat += 1
            r = self.objseq(scope, fuel - 1) if self.chance(2, 3) else self.numseq(scope, fuel - 1)
            self.noflat -= 1
            if r is None:
                return self.num_leaf(scope)
            self.labels.add("Count")
            return (f"{r[0]}.Count()", "int")
        self.noflat += 1
        r = self.numseq(scope, fuel - 1)
        self.noflat -= 1
        if r is None:
            return self.num_leaf(scope)
        if k == "sum":
            self.labels.add("Sum")
            return (f"{r[0]}.Sum()", r[1])
        if k == "minmax":
            v = self.newvar(scope, "v")
            if self.chance(1, 2):
                # values of any sign: the maximum of negative numbers is negative
                how = self.pick(["Max", "Min"])
                self.labels.add(how)
                self.labels.add("MinMax-any-sign")
                return (f"{r[0]}.{how}()", "double")
            if self.chance(1, 2):
                self.labels.add("Max")
                return (f"{r[0]}.Select(lambda {v}: abs({v})).Max()", "double")
            self.labels.add("Min")
            return (f"{r[0]}.Select(lambda {v}: 0 - abs({v})).Min()", "double")
        acc = self.newvar(scope, "acc")
        v = self.newvar(self.bind(scope, acc, TNum("double")), "v")
        while v == acc:
            v = v + "v"
        seed = self.pick(["0", "1", "0.0", "2.5", "10"])
        seed_kind = "int" if "." not in seed else "double"
        tail = ""
        if getattr(f, "computed_seed", True) and self.chance(1, 2):
            # a seed that has to be COMPUTED first: a count, a number from the enclosing scope, a conditional
            int_vars = [n for n, t in scope if isinstance(t, TNum) and t.kind == "int"]
            how = self.weighted([(3, "count"), (2, "leaf"), (1, "ifexp")] + ([(4, "intvar")] if int_vars else []))
            if how == "intvar":
                seed = self.pick(int_vars)
                seed_kind = "int"
                # ... and the same number used again next to the aggregate (it must keep its own type)
                tail = self.pick([f" + {seed} / 2", f" + {seed} / 2", ""])
            elif how == "count":
                self.noflat += 1
                os_ = self.objseq(scope, 0)
                self.noflat -= 1
                if os_ is not None:
                    seed, seed_kind = f"{os_[0]}.Count()", "int"
            elif how == "leaf":
                seed, seed_kind = self.num_leaf(scope)
                if seed_kind == "bool":
                    seed, seed_kind = "1", "int"
            else:
                seed, seed_kind = f"(1 if {self.boolean(scope, 0)} else 2.5)", "double"
            if not tail and self.chance(1, 3) and not seed.lstrip("(").startswith("-"):
                # ... under a unary sign: still a value that has to be computed first
                seed = self.pick([f"-({seed})", f"-({seed})", f"+({seed})"])
                self.labels.add("Aggregate-signed-computed-seed")
            self.labels.add("Aggregate-computed-seed")
        body = self.pick([f"{acc} + {v}", f"{acc} + {v} * 2", f"{acc} + 1", f"{acc} * 2 + {v}", f"({acc} if {acc} > {v} else {v})", f"{acc} - {v}"])
        self.labels.add("Aggregate")
        import re as _re

        uses_v = _re.search(rf"\b{_re.escape(v)}\b", body) is not None
        kind = wider(seed_kind, r[1]) if uses_v else seed_kind
        if "if" in body:
            kind = "double"
        if tail:
            return (f"({r[0]}.Aggregate({seed}, lambda {acc}, {v}: {body}){tail})", "double")
        return (f"{r[0]}.Aggregate({seed}, lambda {acc}, {v}: {body})", kind)

    def mathfn(self, scope, fuel) -> Tuple[str, str]:
        name = self.pick(self.f.math_names)
        a, ka = self.num(scope, fuel - 1)
        self.labels.add("math")
        if name == "abs" and ka == "int":
            return (f"abs({a})", "int")  # abs of an integer is an integer
        if name == "exp2small":
            return (f"exp2({a} / 64.0)", "double")
        if name == "sqrtabs":
            return (f"sqrt(fabs({a}))", "double")
        if name == "log1pabs":
            return (f"log1p(fabs({a}))", "double")
        if name in ("atan2", "hypot", "fmax", "fmin", "copysign", "fdim"):
            b, _ = self.num(scope, fuel - 1)
            return (f"{name}({a}, {b})", "double")
        return (f"{name}({a})", "double")

    # ------------------------------------------------------------- booleans
    def boolean(self, scope, fuel) -> str:
        f = self.f
        bools = [n for n, t in scope if isinstance(t, TNum) and t.kind == "bool"]
        objs = self.obj_sources(scope, fuel)
        bm = [(txt, m) for txt, cls in objs for m in self.s.classes[cls].methods if m.kind == "num" and m.ctype == "bool" and m.typed]
        opts = [(8, "cmp")]
        em = [(txt, m) for txt, cls in objs for m in self.s.classes[cls].methods if m.kind == "num" and m.enum]
        if em:
            opts.append((3, "enum"))
        if bm:
            opts.append((2, "method"))
        if bools:
            opts.append((2, "var"))
        if fuel > 0 and f.boolops:
            opts += [(3, "and"), (2, "or"), (1, "not")]
        k = self.weighted(opts)
        if k == "cmp":
            a, _ = self.num(scope, max(fuel - 1, 0))
            b, _ = self.num(scope, 0) if self.chance(1, 2) else (self.pick(["0", "1", "2.5", "10", "-1.5"]), "double")
            op = self.pick(["<", "<=", ">", ">=", "==", "!="])
            self.labels.add("compare")
            self.nops += 1
            return f"({a} {op} {b})"
        if k == "enum":
            txt, m = self.pick(em)
            e = self.s.enum(m.enum)
            self.labels.add("enum-compare")
            self.nops += 1
            return f"({txt}.{m.name}() {self.pick(['==', '!='])} {e.dotted}.{self.pick(e.values)})"
        if k == "method":
            txt, m = self.pick(bm)
            self.labels.add("bool-method")
            return f"{txt}.{m.name}()"
        if k == "var":
            return self.pick(bools)
        self.nops += 1
        if k == "not":
            self.labels.add("not")
            return f"(not {self.boolean(scope, fuel - 1)})"
        a = self.boolean(scope, fuel - 1)
        b = self.boolean(scope, fuel - 1)
        self.labels.add(k)
        return f"({a} {k} {b})"

    # ------------------------------------------------------------- columns and rows
    def column(self, scope, fuel) -> Tuple[str, object]:
        """an output column: scalar, 1-D or 2-D sequence of scalars.  returns (text, type)"""
        opts = [(6, "num"), (2, "bool"), (6, "seq")]
        if self.f.seq2d and fuel > 1:
            opts.append((2, "seq2"))
        special = [(txt, m) for txt, cls in self.obj_sources(scope, fuel) for m in self.s.classes[cls].methods if m.kind == "num" and (m.enum or m.tree_type)]
        if special:
            opts.append((3, "typed-leaf"))
        # the same leaves as a per-event array: a sequence of objects mapped to the enum / tree_type'd method
        special_seq = [m for cls in self.s.classes for m in self.s.classes[cls].methods if m.kind == "num" and (m.enum or m.tree_type)]
        if special_seq:
            opts.append((2, "typed-leaf-seq"))
        if self.f.first and not self.safe and fuel > 1 and not self.noflat:
            opts.append((2, "first-of-seqs"))
        if self.f.closures and not getattr(self, "no_lambda_twice", 0):
            opts.append((1, "lambda-twice"))
        # (an enum of a class some object at hand belongs to: the header that defines it is then part of the package)
        enums_here = [e_ for e_ in self.s.enums if e_.in_class and any(isinstance(t, TObj) and t.cls == e_.in_class for _, t in scope)]
        if enums_here:
            opts.append((2, "enum-const"))
        outer_objs = [(n, t.cls) for n, t in scope if isinstance(t, TObj) and not n.startswith("__")
                      and any(m.kind == "num" and not m.enum and not m.tree_type and not m.member and m.ctype != "bool" for m in self.s.classes[t.cls].methods)]
        def _flat_sources(o_name, o_cls):
            evs_ = self.vars_of(scope, lambda t: isinstance(t, TEvt))
            srcs = [(f"{e_}.{c.accessor}({c.banks[0]!r})", c) for e_, _ in evs_ for c in self.s.colls if not c.singleton and any(m.kind == "vec" for m in self.s.classes[c.element].methods)]
            srcs_m = [(f"{o_name}.{m.name}()", m.cls) for m in self.s.classes[o_cls].methods if m.kind == "objvec" and any(x.kind == "vec" for x in self.s.classes[m.cls].methods)]
            return [(t_, c.element, (c.accessor, c.banks[0])) for t_, c in srcs] + [(t_, cls_, None) for t_, cls_ in srcs_m]

        outer_objs = [(n, c_) for n, c_ in outer_objs if _flat_sources(n, c_)]
        if self.f.seq2d and self.f.closures and outer_objs and not self.noflat:
            opts.append((7, "shadow-two-out"))
        k = self.weighted(opts)
        if k == "lambda-twice":
            t_, kind_ = self.lambda_twice(scope, min(fuel, 2))
            return (t_, TNum(kind_))
        if k == "enum-const":
            # an enum value itself as a column (an integer leaf)
            e_ = self.pick(enums_here)
            self.labels.add("enum-constant-column")
            return (f"{e_.dotted}.{self.pick(e_.values)}", TNum("int"))
        if k == "shadow-two-out":
            # a 2-D column: inside a loop of its own, a flattening step whose parameter carries the name of an object bound TWO lambdas further out,
            # followed by a step that means that outer object
            o_name, o_cls = self.pick(outer_objs)
            mid = self.objseq(scope, 0)
            cand = _flat_sources(o_name, o_cls)
            if mid is not None and cand:
                src_txt, src_cls, use = self.pick(cand)
                if use:
                    self.uses.append(use)
                vm_ = self.pick([m for m in self.s.classes[src_cls].methods if m.kind == "vec"])
                nm_ = self.pick([m for m in self.s.classes[o_cls].methods if m.kind == "num" and not m.enum and not m.tree_type and not m.member and m.ctype != "bool"])
                names = {n for n, _ in scope}
                mv = "mid"
                while mv in names:
                    mv += "d"
                w = "sw"
                while w in names or w == mv:
                    w += "w"
                shadow = self.chance(3, 4)
                inner_name = o_name if shadow else "fl"
                if shadow:
                    self.labels.add("shadowing")
                    self.labels.add("shadow-two-lambdas-out-behind-SelectMany")
                self.labels.update({"column-2D", "SelectMany-inner", "closure"})
                self.nops += 3
                kind_ = wider(vm_.ctype, nm_.ctype if nm_.typed else "double")
                return (f"{mid[0]}.Select(lambda {mv}: {src_txt}.SelectMany(lambda {inner_name}: {inner_name}.{vm_.name}()).Select(lambda {w}: {w} * {o_name}.{nm_.name}()))",
                        TSeq(TSeq(TNum(kind_))))
            k = "num"
        if k == "first-of-seqs":
            # the first element of a sequence of sequences: a 1-D column holding the inner sequence of the first object only
            os_ = self.objseq(scope, 0)
            if os_ is not None:
                v = self.newvar(scope, "j")
                self.noflat += 1
                inner = self.unbare(self.bind(scope, v, TObj(os_[1])), self.numseq(self.bind(scope, v, TObj(os_[1])), 0))
                self.noflat -= 1
                if inner is not None:
                    self.labels.add("First")
                    self.labels.add("First-of-sequences")
                    self.nops += 2
                    base = f"{os_[0]}.Select(lambda {v}: {inner[0]}).First()"
                    how = self.weighted([(3, "plain"), (2, "select"), (1, "where")])
                    if how == "select":
                        x = self.newvar(scope, "x")
                        return (f"{base}.Select(lambda {x}: {x} + 1)", TSeq(TNum(inner[1])))
                    if how == "where":
                        x = self.newvar(scope, "x")
                        return (f"{base}.Where(lambda {x}: {x} > 1)", TSeq(TNum(inner[1])))
                    return (base, TSeq(TNum(inner[1])))
            k = "seq"
        if k == "typed-leaf-seq":
            os_ = self.objseq(scope, fuel - 1)
            evs_ = self.vars_of(scope, lambda t: isinstance(t, TEvt))
            typed = lambda cls: any(m.kind == "num" and (m.enum or m.tree_type) for m in self.s.classes[cls].methods)
            good = [c for c in self.s.colls if not c.singleton and (typed(c.element) or any(ov.kind == "objvec" and typed(ov.cls) for ov in self.s.classes[c.element].methods))]
            good = good + [c for c in good if any(ov.kind == "objvec" and typed(ov.cls) for ov in self.s.classes[c.element].methods)] * 2
            if evs_ and good and (os_ is None or self.chance(3, 4)):
                # (a collection whose elements - or their object vectors' elements - have such a method)
                c_ = self.pick(good)
                b_ = self.pick(c_.banks)
                self.uses.append((c_.accessor, b_))
                os_ = (f"{self.pick(evs_)[0]}.{c_.accessor}({b_!r})", c_.element)
            ms = [m for m in self.s.classes[os_[1]].methods if m.kind == "num" and (m.enum or m.tree_type)] if os_ else []
            # ... or one level deeper (a 2-D column): the objects' own object vectors mapped to the typed method
            deep = [(ov, m) for ov in self.s.classes[os_[1]].methods if ov.kind == "objvec" for m in self.s.classes[ov.cls].methods
                    if m.kind == "num" and (m.enum or m.tree_type)] if (os_ and self.f.seq2d) else []
            if deep and self.chance(2, 3):
                ov, m = self.pick(deep)
                v = self.newvar(scope, "j")
                w = self.newvar(self.bind(scope, v, TObj(os_[1])), "k")
                self.labels.add("enum-column-2D" if m.enum else "tree_type-column-2D")
                self.labels.add("column-2D")
                self.nops += 2
                return (f"{os_[0]}.Select(lambda {v}: {v}.{ov.name}().Select(lambda {w}: {w}.{m.name}()))", TSeq(TSeq(TNum(m.tree_type or "int"))))
            if ms:
                m = self.pick(ms)
                v = self.newvar(scope, "j")
                self.labels.add("enum-column-1D" if m.enum else "tree_type-column-1D")
                self.nops += 1
                return (f"{os_[0]}.Select(lambda {v}: {v}.{m.name}())", TSeq(TNum(m.tree_type or "int")))
            k = "num"
        if k == "typed-leaf":
            txt, m = self.pick(special)
            self.labels.add("enum-column" if m.enum else "tree_type-column")
            return (f"{txt}.{m.name}()", TNum(m.tree_type or "int"))
        if k == "num":
            t, kind = self.num(scope, fuel)
            return (t, TNum(kind))
        if k == "bool":
            return (self.boolean(scope, fuel), TNum("bool"))
        if k == "seq":
            r = self.unbare(scope, self.numseq(scope, fuel))
            if r is None:
                t, kind = self.num(scope, fuel)
                return (t, TNum(kind))
            self.labels.add("column-1D")
            return (r[0], TSeq(TNum(r[1])))
        if self.f.range_ and self.chance(1, 5):
            # the outer level is a range of numbers (possibly as long as a collection), the inner one a range or a collection
            x = self.newvar(scope, "x")
            while x in {n for n, _ in scope}:
                x += "x"  # (no shadowing here: the inner level may mention any name of the scope)
            sc2 = self.bind(scope, x, TNum("int"))
            hi = self.pick(["2", "3", "1"])
            os0 = self.objseq(scope, 0)
            if os0 is not None and self.chance(1, 2):
                hi = f"{os0[0]}.Count()"
                self.labels.add("Range-computed-bound")
            y = self.newvar(sc2, "y")
            while y == x:
                y += "y"
            inner_txt, inner_kind = f"Range(0, {self.pick(['2', '3'])}).Select(lambda {y}: {x} + {y})", "int"
            os1 = self.objseq(scope, 0)
            if os1 is not None and self.chance(1, 2):
                nm1 = [m for m in self.s.classes[os1[1]].methods if m.kind == "num" and not m.enum and not m.tree_type and not m.member and m.ctype != "bool" and not m.typed]
                if nm1:
                    inner_txt, inner_kind = f"{os1[0]}.Select(lambda {y}: {y}.{self.pick(nm1).name}() + {x})", "double"
            self.labels.update({"Range", "column-2D", "column-2D-outer-Range"})
            self.nops += 2
            return (f"Range(0, {hi}).Select(lambda {x}: {inner_txt})", TSeq(TSeq(TNum(inner_kind))))
        os_ = self.objseq(scope, fuel - 1)
        if os_ is None:
            t, kind = self.num(scope, fuel)
            return (t, TNum(kind))
        ovm = [m for m in self.s.classes[os_[1]].methods if m.kind == "objvec"]
        if ovm and self.f.first and not self.safe and not self.noflat and self.chance(1, 5):
            # the outer level is the object vector of the FIRST object of a sequence
            m0 = self.pick(ovm)
            nm0 = [m for m in self.s.classes[m0.cls].methods if m.kind == "num" and not m.enum and not m.tree_type and not m.member and m.ctype != "bool" and not m.typed]
            if nm0:
                t_ = self.newvar(scope, "t")
                y = self.newvar(self.bind(scope, t_, TObj(m0.cls)), "y")
                while y == t_:
                    y += "y"
                self.labels.update({"First", "First-object", "Range", "column-2D", "column-2D-outer-First-object-vector"})
                self.nops += 3
                return (f"{os_[0]}.First().{m0.name}().Select(lambda {t_}: Range(0, 2).Select(lambda {y}: {t_}.{self.pick(nm0).name}() + {y}))", TSeq(TSeq(TNum("double"))))
        v = self.newvar(scope, "j")
        vm2 = [m for m in self.s.classes[os_[1]].methods if m.kind == "vec"]
        if vm2 and self.chance(1, 3):
            m2 = self.pick(vm2)
            r2 = (f"{v}.{m2.name}()", m2.ctype)
            self._bare = True
        else:
            r2 = self.numseq(self.bind(scope, v, TObj(os_[1])), fuel - 1)
        if r2 is not None and self._bare and self.chance(2, 3):
            # a vector-valued method (declared by value or by pointer) as it is: the inner level of the 2-D column
            self._bare = False
            inner = r2
            self.labels.add("column-2D-bare-vector-method")
        else:
            inner = self.unbare(self.bind(scope, v, TObj(os_[1])), r2)
        if inner is None:
            t, kind = self.num(scope, fuel)
            return (t, TNum(kind))
        self.labels.add("column-2D")
        self.nops += 1
        return (f"{os_[0]}.Select(lambda {v}: {inner[0]})", TSeq(TSeq(TNum(inner[1]))))

    def row(self, scope, fuel, ncols: int, form: str) -> Tuple[str, List[Tuple[str, object]]]:
        cols = [self.column(scope, fuel) for _ in range(ncols)]
        names = None
        if form == "bare" and ncols == 1:
            return cols[0][0], [("col1", cols[0][1])]
        if form == "dict":
            keys = [f"c{i}" if self.chance(2, 3) else self.pick(["pt", "eta", "n", "val", "x"]) + str(i) for i in range(ncols)]
            if self.chance(1, 5):
                # distinct names that are equal once reduced to identifier characters
                pool = ["jet_pt", "jet.pt", "jet pt", "jet-pt", "jet/pt"]
                k0 = self.draw(st.integers(0, len(pool) - 1))
                keys = [pool[(k0 + i) % len(pool)] if i < len(pool) else f"c{i}" for i in range(ncols)]
            txt = "{" + ", ".join(f"{k!r}: {c[0]}" for k, c in zip(keys, cols)) + "}"
            return txt, [(k, c[1]) for k, c in zip(keys, cols)]
        if form == "list":
            txt = "[" + ", ".join(c[0] for c in cols) + "]"
        else:
            txt = "(" + ", ".join(c[0] for c in cols) + ("," if ncols == 1 else "") + ")"
        return txt, [(f"col{i}", c[1]) for i, c in enumerate(cols)]


@dataclass
class Query:
    text: str
    backend: str
    columns: List[Tuple[str, object]]
    uses: List[Tuple[str, str]]
    labels: Set[str]
    nops: int
    tree: Optional[str] = None
    excluded: Dict[str, int] = field(default_factory=dict)
    meta: List[dict] = field(default_factory=list)

    def to_json(self):
        return {"text": self.text, "backend": self.backend, "uses": [list(u) for u in self.uses], "labels": sorted(self.labels),
                "columns": [(n, repr(t)) for n, t in self.columns], "tree": self.tree}


def dataset_text(schema: Schema, extra_md: Sequence[dict] = (), with_types: bool = True) -> str:
    q = "EventDataset('ds')"
    mds = ((enum_metadata(schema) + collection_metadata(schema) + method_metadata(schema)) if with_types else []) + list(extra_md)
    for md in mds:
        q = f"MetaData({q}, {md!r})"
    return q


@st.composite
def queries(draw, schema: Schema, feat: Features = None, fuel_range=(1, 3), extra_md: Sequence[dict] = ()):
    import dataclasses as _dc

    feat = _dc.replace(feat) if feat is not None else Features()  # a private copy: switches are flipped while generating
    g = QGen(draw, schema, feat)
    fuel = draw(st.integers(*fuel_range))
    ds = dataset_text(schema, extra_md)
    scope: List[Tuple[str, object]] = []
    src = ds
    shape_opts = [(6, "event")]
    if feat.selectmany_top:
        shape_opts.append((3, "object"))
    if feat.plumbing:
        shape_opts.append((3, "plumb"))
        shape_opts.append((2, "handon"))
    if feat.first and feat.plumbing:
        shape_opts.append((1, "firstrow"))
    shape = g.weighted(shape_opts)
    force_handon = shape == "handon"  # one sequence handed on bare to the second lambda, which iterates it inside its own loop
    if force_handon:
        shape = "plumb"
    # optional event-level Where first
    if feat.where_top and g.chance(1, 4):
        e = g.newvar([], "e")
        b = g.boolean([(e, TEvt())], fuel - 1)
        src = f"Where({src}, lambda {e}: {b})"
        g.labels.add("Where-event")
        g.nops += 1
    ncols = draw(st.sampled_from([1, 1, 2, 2, 3, 4]))
    form = g.weighted([(3, "bare"), (4, "tuple"), (1, "list"), (3, "dict")])
    if ncols > 1 and form == "bare":
        form = "tuple"
    if shape == "firstrow":
        # the row is the FIRST element of a sequence of tuples / dicts of numbers
        e = g.newvar([], "e")
        os_ = g.objseq([(e, TEvt())], max(fuel - 1, 0))
        if os_ is None:
            shape = "event"
        else:
            j = g.newvar([], "j")
            ncols = max(ncols, 2)
            vals = [g.num([(j, TObj(os_[1]))], 1) for _ in range(ncols)]
            if g.chance(1, 2):
                keys = [f"k{i}" for i in range(ncols)]
                body = "{" + ", ".join(f"{k!r}: {v[0]}" for k, v in zip(keys, vals)) + "}"
                cols = [(k, TNum(v[1])) for k, v in zip(keys, vals)]
                form = "dict"  # (an explicit ResultTTree does not take a dict row, first element or not)
            else:
                body = "(" + ", ".join(v[0] for v in vals) + ")"
                cols = [(f"col{i}", TNum(v[1])) for i, v in enumerate(vals)]
                form = "tuple"
            text = f"Select({src}, lambda {e}: {os_[0]}.Select(lambda {j}: {body}).First())"
            g.labels.add("First")
            g.labels.add("First-of-tuples-row")
            g.nops += 2
    if shape == "event":
        e = g.newvar([], "e")
        body, cols = g.row([(e, TEvt())], fuel, ncols, form)
        text = f"Select({src}, lambda {e}: {body})"
    elif shape == "firstrow":
        pass
    elif shape == "object":
        e = g.newvar([], "e")
        os_ = g.objseq([(e, TEvt())], fuel - 1)
        j = g.newvar([], "j")
        body, cols = g.row([(j, TObj(os_[1]))], fuel, ncols, form)
        if any(isinstance(c[1], TSeq) and isinstance(c[1].elem, TSeq) for c in cols):
            g.labels.add("column-2D-in-per-object-row")
        if form == "bare" and isinstance(cols[0][1], TSeq):
            g.labels.add("per-object-bare-sequence-row")
        text = f"Select(SelectMany({src}, lambda {e}: {os_[0]}), lambda {j}: {body})"
        g.labels.add("SelectMany-event")
        g.nops += 1
    else:
        # plumbing: first Select builds a tuple/dict of sequences & values, second consumes it
        e = g.newvar([], "e")
        sc = [(e, TEvt())]
        items = []
        n_items = 1 if force_handon else draw(st.integers(1, 3))
        # items that the second lambda never uses are dropped by func_adl: keep them total (no First / index)
        g.safe += 1
        g.no_lambda_twice = 1
        for i in range(n_items):
            kind = g.weighted([(4, "objseq"), (2, "num"), (1, "numseq")]) if not force_handon else g.weighted([(3, "objseq"), (1, "numseq")])
            if kind == "objseq":
                r = g.objseq(sc, 1 if (force_handon and g.chance(2, 3)) else 0)  # (a handed-on sequence is often a filtered one)
                items.append((r[0], TSeq(TObj(r[1]))))
            elif kind == "num":
                t, k = g.num(sc, 1)
                items.append((t, TNum(k)))
            else:
                r = g.unbare(sc, g.numseq(sc, 1))
                items.append((r[0], TSeq(TNum(r[1]))) if r else (g.lit_int(), TNum("int")))
        g.safe -= 1
        g.no_lambda_twice = 0
        use_dict = g.chance(1, 2)
        t = g.newvar([], "t")
        want_bare = n_items == 1 and (force_handon or g.chance(1, 2))
        if want_bare and ".Where(" in items[0][0] and isinstance(items[0][1], TSeq):
            # recorded finding handed-on-filtered-sequence: a FILTERED sequence handed on bare and filtered again in two places of the second
            # lambda is fused by func_adl on shared nodes (the package does not compile): the second lambda does not filter it again
            # (counted where a filter is left out); everything else - iterating it again inside its own loop, aggregates - is generated
            g.nowhere.add("__p0__")
        if want_bare:
            # the value itself is handed on (no tuple around it): the second lambda then works on ONE node, however often it mentions it
            first = items[0][0]
            acc = [t]
            g.labels.add("plumbing-bare")
        elif use_dict:
            keys = [f"k{i}" for i in range(n_items)]
            first = "{" + ", ".join(f"{k!r}: {it[0]}" for k, it in zip(keys, items)) + "}"
            acc = [f"{t}.{k}" if g.chance(1, 2) else f"{t}[{k!r}]" for k in keys]
            g.labels.add("plumbing-dict")
        else:
            first = "(" + ", ".join(it[0] for it in items) + ("," if n_items == 1 else "") + ")"
            acc = [f"{t}[{i}]" for i in range(n_items)]
            g.labels.add("plumbing-tuple")
        # second lambda: bind aliases by textual substitution: variables named after accessors
        scope2 = [(t, TTup(()))]
        alias = {}
        for i, (a, it) in enumerate(zip(acc, items)):
            alias[f"__p{i}__"] = a
            scope2.append((f"__p{i}__", it[1]))
        bare = "plumbing-bare" in g.labels
        saved2d = g.f.seq2d
        extra = None
        if force_handon and form == "bare":
            form = "tuple"
        if bare and isinstance(items[0][1], TSeq) and (force_handon or g.chance(1, 2)) and ncols < 4:
            # the handed-on sequence iterated again inside its own loop / used twice in one expression
            elem = items[0][1].elem
            if isinstance(elem, TObj):
                nm = [m.name for m in schema.classes[elem.cls].methods if m.kind == "num" and not m.enum and not m.tree_type and not m.member and m.ctype != "bool"]
                if nm:
                    m1 = g.pick(nm)
                    extra = g.pick([
                        (f"{t}.Select(lambda sj: {t}.Where(lambda sk: sk.{m1}() > sj.{m1}()).Count())", TSeq(TNum("int"))),
                        (f"{t}.Select(lambda sj: {t}.Where(lambda sk: sk.{m1}() > sj.{m1}()).Count())", TSeq(TNum("int"))),
                        (f"{t}.Select(lambda sj: {t}.Count())", TSeq(TNum("int"))),
                        (f"({t}.Count() + {t}.Select(lambda sj: sj.{m1}()).Sum())", TNum("double")),
                        (f"({t}.Select(lambda sj: sj.{m1}()).Sum() > 1 and {t}.Count() > 1)", TNum("bool")),
                        (f"{t}.Select(lambda sj: {t}.Count() * sj.{m1}())", TSeq(TNum("double"))),
                        (f"{t}.Select(lambda sj: {t}.Select(lambda sk: sk.{m1}() + sj.{m1}()))", TSeq(TSeq(TNum("double")))),
                        (f"{t}.Select(lambda sj: sj.{m1}() / ({t}.Select(lambda sk: sk.{m1}() * sk.{m1}()).Sum() + 1))", TSeq(TNum("double"))),
                        (f"{t}.Select(lambda sj: sj.{m1}()).Aggregate(0.0, lambda sa, sp: sa + sp * {t}.Count())", TNum("double")),
                    ])
            else:
                extra = g.pick([
                    (f"{t}.Select(lambda sp: {t}.Where(lambda sq: sq > sp).Count())", TSeq(TNum("int"))),
                    (f"({t}.Count() + {t}.Sum())", TNum("double")),
                    (f"{t}.Aggregate(0.0, lambda sa, sp: sa + sp * {t}.Sum())", TNum("double")),
                    (f"{t}.Aggregate(0.0, lambda sa, sp: sa + (sp - {t}.Sum() / ({t}.Count() + 1)) ** 2)", TNum("double")),
                    (f"{t}.Select(lambda sp: sp / ({t}.Sum() * {t}.Sum() + 1))", TSeq(TNum("double"))),
                ])
            if extra is not None and "__p0__" in g.nowhere and ".Where(" in extra[0]:
                # (the recorded finding again: the handed-on sequence is a filtered one and would be filtered once more)
                g.excluded["handed-on-filtered-sequence"] = g.excluded.get("handed-on-filtered-sequence", 0) + 1
                extra = (f"{t}.Select(lambda sj: {t}.Count())", TSeq(TNum("int")))
            if extra is not None:
                g.labels.add("handed-on-sequence-self-join")
                if "__p0__" in g.nowhere:
                    g.labels.add("handed-on-filtered-sequence-iterated-again")
        body, cols = g.row(scope2, fuel, ncols, form)
        g.f.seq2d = saved2d
        for k, a in alias.items():
            body = body.replace(k, a)
        if extra is not None and form in ("tuple", "list", "dict"):
            if form == "dict":
                body = body[:-1] + f", 'sx': {extra[0]}" + "}"
                cols = cols + [("sx", extra[1])]
            else:
                close = body[-1]
                inner = body[1:-1].rstrip(",")
                body = body[0] + inner + ", " + extra[0] + close
                cols = cols + [(f"col{len(cols)}", extra[1])]
        text = f"Select(Select({src}, lambda {e}: {first}), lambda {t}: {body})"
        g.nops += 1
    tree = None
    if feat.explicit_ttree and g.chance(1, 4):
        tree = draw(st.sampled_from(["mytree", "t1", "analysis"]))
        names = [n for n, _ in cols]
        if form == "dict":
            # ResultTTree cannot take a dict: rebuild as tuple is not possible textually -> keep default
            tree = None
        else:
            nm = repr(names if len(names) > 1 or form != "bare" else names[0])
            if nm.startswith("[") and g.chance(1, 3):
                nm = repr(tuple(names))  # the names as a tuple literal: a list once the query has been through the text format
                g.labels.add("ResultTTree-names-tuple")
            text = f"ResultTTree({text}, {nm}, {tree!r}, 'out.root')"
            g.labels.add("explicit-ResultTTree")
    return Query(text, schema.backend, cols, list(g.uses), g.labels, g.nops, tree, dict(g.excluded))
