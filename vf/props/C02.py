"""C02 - every accepted query yields a complete, self-consistent, compilable package.

Generated: C01's grammar plus metadata-driven features (declared method types, user C++ functions,
injected code blocks with valid C++ lines, job scripts) on all three back ends.
Oracle, for every translation that returns: (a) every file named in the returned info exists, the
entry script is among them and executable; (b) no template directive is left in any rendered file;
(c) the C++ compiles and links against the model with -Werror=shadow/uninitialized/return-type (the
compiler judges declared-once / in scope / before use / consistent type); (d) the python job files
parse, BuildFile.xml is well-formed, runner.sh passes bash -n, LINK_LIBRARIES is one argument list;
(e) the job books its tree and processes events without crashing."""
from __future__ import annotations

import ast as pyast
import os
import re
import shutil
import stat
import subprocess
import tempfile
import xml.dom.minidom

from hypothesis import strategies as st

from vf import cxx
from vf.core import Ctx, Discard, Stats, Violation, derive_seed, hyp_search, jdump, run_shards
from vf.gen.metadata import job_scripts, simple_cpp_functions, valid_code_blocks
from vf.gen.query import Features, dataset_text, queries
from vf.model.events import Event, events_strategy, write_events
from vf.model.schema import standard_schema
from vf.xlate import BACKENDS, translate

RULE = (
    "case = (back end, generated query over the standard schema incl. user C++ functions, 0-3 inject_code blocks of valid C++ lines, 0-3 job "
    "scripts, declared method types; 2 generated events). Every returned translation is checked for file completeness, exec bit, leftover "
    "template syntax, python/XML/shell well-formedness, compile+link with -Werror=shadow, and a crash-free run. Rejected queries are "
    "discarded here (acceptance is C01's business). non-trivial = emitted event code has >=2 blocks with declarations and >=1 class-level "
    "variable; distinct by normalised body text."
)

EXTRA_FLAGS = ["-Wshadow", "-Werror=shadow"]


def case_strategy(backend, focus=()):
    sch = standard_schema(backend)
    fmd, funcs, _env = simple_cpp_functions()

    @st.composite
    def cases(draw):
        blocks = draw(valid_code_blocks(backend))
        scripts = draw(job_scripts())
        use_funcs = draw(st.booleans())
        feat = Features(user_funcs=funcs if use_funcs else (), focus=focus)
        md = list(blocks) + list(scripts) + (fmd if use_funcs else [])
        q = draw(queries(sch, feat, extra_md=md))
        uses = q.uses or [(sch.colls[0].accessor, sch.colls[0].banks[0])]
        evs = draw(events_strategy(sch, uses, n_min=2, n_max=2))
        return q, evs, blocks

    return cases()


def block_stats(src: str):
    """number of blocks that declare something, inside the per-event method"""
    m = re.search(r"(StatusCode query :: execute \(\)|void Analyzer::analyze\()", src)
    body = src[m.start():] if m else src
    decl = re.compile(r"^\s*(const\s+)?[A-Za-z_][\w:<>,\s\*&]*\s+[A-Za-z_]\w*(\s*\(.*\))?;\s*$")
    blocks_with_decl = 0
    depth_has = []
    for line in body.split("\n"):
        t = line.strip()
        if t == "{":
            depth_has.append(False)
        elif t == "}":
            if depth_has and depth_has.pop():
                blocks_with_decl += 1
        elif depth_has and decl.match(line) and not t.startswith(("return", "throw")) and "=" not in t.split("(")[0]:
            depth_has[-1] = True
    return blocks_with_decl


def set_name_counter(n: int):
    """the translator numbers the C++ names it generates from a process-wide counter: n = what a process that has generated n names so far holds"""
    import func_adl_xAOD.common.cpp_vars as cv

    cv.unique_var_index = n


def check(text, backend, evs, user_strings=(), name_counter=None):
    rep = {"backend": backend, "query": text, "events": [e.to_json() for e in evs]}
    if name_counter is not None:
        rep["name_counter"] = name_counter
        set_name_counter(name_counter)
    out = tempfile.mkdtemp(prefix="vf_c02_")
    try:
        try:
            pkg = translate(text, backend, outdir=out)
        except Exception as e:
            raise Discard("rejected: " + type(e).__name__)
        info = pkg.info
        # (a) completeness
        names = list(info.all_filenames)
        for fn in names:
            if not os.path.isfile(os.path.join(out, fn)):
                raise Violation("missing-file", f"{fn} is named in the returned info but was not written", rep)
        if info.main_script not in names:
            raise Violation("main-script", f"main script {info.main_script} is not among the files {names}", rep)
        mode = os.stat(os.path.join(out, info.main_script)).st_mode
        if not (mode & stat.S_IXUSR and mode & stat.S_IXGRP and mode & stat.S_IXOTH):
            raise Violation("not-executable", f"{info.main_script} has mode {oct(mode & 0o777)}", rep)
        if str(info.output_path) != out:
            raise Violation("output-path", f"returned output_path {info.output_path} != requested {out}", rep)
        # (b) template leftovers
        for fn, txt in pkg.files.items():
            for tok in ("{{", "{%", "{#", "%}", "#}"):
                if tok in txt and not any(tok in s for s in user_strings):
                    raise Violation("template-leftover", f"{fn} still contains template syntax {tok!r}", rep)
        # (d) side files
        for fn in ("ATestRun_eljob.py", "analyzer_cfg.py"):
            if fn in pkg.files:
                try:
                    pyast.parse(pkg.files[fn])
                except SyntaxError as e:
                    raise Violation("python-syntax", f"{fn} does not parse: {e}", rep)
        if "BuildFile.xml" in pkg.files:
            try:
                xml.dom.minidom.parseString("<root>" + pkg.files["BuildFile.xml"] + "</root>")
            except Exception as e:
                raise Violation("xml", f"BuildFile.xml is not well-formed: {e}", rep)
        r = subprocess.run(["bash", "-n", os.path.join(out, info.main_script)], capture_output=True, text=True)
        if r.returncode != 0:
            raise Violation("shell-syntax", f"runner.sh fails bash -n: {r.stderr[:200]}", rep)
        if "package_CMakeLists.txt" in pkg.files:
            cm = pkg.files["package_CMakeLists.txt"]
            m = re.search(r"atlas_add_library \(analysisLib(.*?)\)\s*\n", cm, re.S)
            if not m or "LINK_LIBRARIES AnaAlgorithmLib" not in m.group(1) or m.group(1).count("(") != 0:
                raise Violation("cmake", "the LINK_LIBRARIES argument list of atlas_add_library is malformed", rep)
        # (c) compile + link
        comp = cxx.compile_package(pkg.files, backend, cxx.std_model(backend), EXTRA_FLAGS)
        try:
            if not comp.ok:
                from vf.enginea import first_error_line

                raise Violation("compile", f"package does not compile: {first_error_line(comp.stderr)}", rep)
            evf = os.path.join(comp.workdir, "events.txt")
            write_events(evs, evf)
            o = cxx.run_job_resume(comp.exe, evf, len(evs))
            if o.get("crashed"):
                raise Violation("crash", f"job crashed: {o['crashed']}", rep)
            if not o.get("constructed") or not o["booktrees"] or not o["book"]:
                raise Violation("no-booking", "the job did not construct / book its tree and branches", rep)
            if any(b["when"] != "init" for b in o["book"]):
                raise Violation("late-booking", "branches booked during event processing", rep)
        finally:
            comp.cleanup()
        src = pkg.files.get("query.cxx") or pkg.files.get("Analyzer.cc")
        hdr = pkg.files.get("query.h") or src
        n_class_vars = len(re.findall(r"^\s*(?:std::vector<.*>|int|double|float|bool|edm::EDGetTokenT<.*>)\s+_?\w+\d+;\s*$", hdr, re.M))
        return block_stats(src), n_class_vars, src
    finally:
        shutil.rmtree(out, ignore_errors=True)


@st.composite
def young_process_cases(draw, backend):
    """a young process (name counter near 0) and 12-24 columns whose names differ by a digit at the end: 'pt1' ... 'pt' ten columns later.  The
    translator's names are base name + running index: two columns must never get the same C++ name, whatever the indices are."""
    sch = standard_schema(backend)
    col = [c for c in sch.colls if not c.singleton][0]
    nums = [m.name for m in sch.classes[col.element].methods if m.kind == "num" and not m.enum and not m.tree_type and not m.member][:3]
    stem = draw(st.sampled_from(["pt", "x", "jet_e", "v2_"]))
    a = draw(st.integers(0, 3))
    gap = 10
    ncols = a + gap + 1 + draw(st.integers(0, 4))
    names = [f"k{i}_" for i in range(ncols)]
    names[a] = stem + "1"
    names[a + gap] = stem
    if ncols > a + gap + 2 and draw(st.booleans()):
        names[a + 1] = stem + "1" + draw(st.sampled_from(["a", "_"]))
    body = "{" + ", ".join(f"{n!r}: j.{nums[i % len(nums)]}()" for i, n in enumerate(names)) + "}"
    text = f"Select(SelectMany({dataset_text(sch)}, lambda e: e.{col.accessor}({col.banks[0]!r})), lambda j: {body})"
    evs = draw(events_strategy(sch, [(col.accessor, col.banks[0])], n_min=1, n_max=1))
    return text, evs


@st.composite
def odd_conditionals(draw, backend):
    """a conditional expression whose arms are not numbers (a string argument, a vector, an object): accepted or refused is the translator's choice,
    but what it accepts has to compile"""
    sch = standard_schema(backend)
    col = [c for c in sch.colls if not c.singleton][0]
    cls = sch.classes[col.element]
    nums = [m.name for m in cls.methods if m.kind == "num" and not m.enum and not m.tree_type and not m.member and m.ctype != "bool"]
    vecs = [m.name for m in cls.methods if m.kind == "vec"]
    links = [m.name for m in cls.methods if m.kind == "obj"]
    test = f"j.{draw(st.sampled_from(nums))}() > {draw(st.sampled_from(['0', '1.5']))}"
    forms = [f"(j.{nums[0]}() if {test} else 'x')", f"('a' if {test} else 'b') == 'a'"]
    if backend == "atlas":
        forms.append(f"j.getAttributeFloat('width' if {test} else 'emf')")
    if vecs:
        forms += [f"(j.{vecs[0]}() if {test} else j.{vecs[-1]}()).Count()", f"(j.{vecs[0]}() if {test} else j.{vecs[0]}())"]
    if links:
        forms.append(f"(j if {test} else j.{links[0]}()).{nums[0]}()")
    # ... and other values a C++ number cannot hold, where a column or an argument is expected: a string constant as a column, the event itself
    # as an argument of a supplied function
    forms += ["'ttbar'", f"{{'sample': 'ttbar', 'v': j.{nums[0]}()}}", f"('a', j.{nums[0]}())", f"('x' if {test} else 'y', 1)"]
    oddf = {"metadata_type": "add_cpp_function", "name": "oddf", "include_files": [], "arguments": ["a"], "code": ["double result = 1;"], "return_type": "double"}
    body = draw(st.sampled_from(forms + ["EVENT-ARG"]))
    ds = dataset_text(sch)
    if body == "EVENT-ARG":
        text = f"Select(MetaData({ds}, {oddf!r}), lambda e: oddf(e) + e.{col.accessor}({col.banks[0]!r}).Count())"
    else:
        text = f"Select(SelectMany({ds}, lambda e: e.{col.accessor}({col.banks[0]!r})), lambda j: {body})"
    evs = draw(events_strategy(sch, [(col.accessor, col.banks[0])], n_min=1, n_max=1))
    return text, evs


def case_key(case):
    q, evs, blocks = case
    return jdump([q.text, [e.to_json() for e in evs]])


def worker(payload):
    seed, n, deadline, backend = payload
    stats = Stats()

    def body(case):
        q, evs, blocks = case
        nb, ncv, src = check(q.text, backend, evs)
        norm = re.sub(r"\d+", "#", src[src.find("execute ()") if "execute ()" in src else src.find("::analyze("):])
        labels = sorted(q.labels) + [f"backend={backend}", f"code_blocks={len(blocks)}"]
        stats.case(norm, nb >= 2 and ncv >= 1, labels, {"backend": backend, "query": q.text[-400:], "blocks_with_declarations": nb, "class_variables": ncv})

    hyp_search(body, case_strategy(backend), max_examples=n, seed=seed, stats=stats, deadline=deadline, key_fn=case_key, shrink_budget=60)
    # a focused batch of its own (own seed): two-argument methods and three-loop flattenings whenever the query at hand allows them
    hyp_search(body, case_strategy(backend, focus=("mix", "flat3")), max_examples=max(1, n // 8), seed=derive_seed(seed, "focus"), stats=stats, deadline=deadline,
               key_fn=case_key, shrink_budget=60)

    def young_body(case):
        text, evs = case
        # every starting value a young process can have when it names the columns
        for counter in range(0, 10):
            check(text, backend, evs, name_counter=counter)
        stats.case("young:" + text[-300:], True, [f"backend={backend}", "young-process-column-names"], {"backend": backend, "query": text[-200:], "name_counters": "0..9"})

    def odd_body(case):
        text, evs = case
        try:
            check(text, backend, evs)
            res = "accepted-and-compiles"
        except Discard:
            res = "refused"
        stats.case("odd:" + text[-200:], True, [f"backend={backend}", "odd-value-where-a-number-is-expected", "outcome=" + res], {"backend": backend, "query": text[-160:], "outcome": res})

    hyp_search(odd_body, odd_conditionals(backend), max_examples=max(2, n // 8), seed=derive_seed(seed, "odd"), stats=stats, deadline=deadline, shrink=False, max_rounds=1)
    hyp_search(young_body, young_process_cases(backend), max_examples=max(1, n // 20), seed=derive_seed(seed, "young"), stats=stats, deadline=deadline, shrink=False, max_rounds=1)
    return stats


def run(ctx: Ctx):
    ctx.rule = RULE
    ctx.assumptions = ["well-formedness is judged by g++ 12 against the stand-in data model as declared to the translator, not the real releases",
                       "BuildFile.xml is a fragment: parsed inside a synthetic root element"]
    for be in BACKENDS:
        cxx.std_model(be)
    total = ctx.n(512, 6400)
    shards = 16
    payloads = [(derive_seed(ctx.seed, "C02", i), max(1, total // shards), ctx.deadline, BACKENDS[i % 3]) for i in range(shards)]
    for st_ in run_shards("vf.props.C02", "worker", payloads):
        ctx.stats.merge(st_)


def replay(case):
    evs = [Event.from_json(j) for j in case["events"]]
    try:
        check(case["query"], case["backend"], evs, name_counter=case.get("name_counter"))
    except Violation as v:
        return [{"key": v.key, "what": v.what}]
    except Discard:
        return []
    return []
