"""C15 - job-script blocks are emitted once each in dependency order.

Oracle: an independent validity checker (no second topological sort):
 * expected ValueError iff  (a) a name arrives with two different scripts, or (b) some dependency
   names a block that was not sent, or (c) the union dependency graph has a cycle (DFS);
 * otherwise the output must be a concatenation of every distinct block's script exactly once,
   contiguous and in order, for SOME order that is a linear extension of the union graph
   (decided by backtracking over block boundaries - needed because blocks may share lines).
Generated: exhaustive over a small alphabet (all arrival orders) + random larger multisets, fed to
generate_script_block directly and through a full ATLAS translation (rendered ATestRun_eljob.py).
"""
from __future__ import annotations

import itertools
import os
from typing import Dict, List, Optional, Tuple

from vf.core import Ctx, Stats, Violation, Discard, derive_seed, hyp_search, run_shards, jdump

Block = Tuple[str, Tuple[str, ...], Tuple[str, ...]]  # name, script, depends_on

RULE = (
    "cases = ordered lists of (name, script, depends_on) blocks; exhaustive over <=3 (quick) / <=4 (thorough) blocks "
    "drawn from 3 names x 2 scripts/name (sharing lines, one empty) x all dependency subsets incl. self, every arrival "
    "order; plus Hypothesis-drawn lists of up to 10 blocks over 8 names (chains, diamonds, cycles, duplicates with "
    "differing deps, missing deps), a sample of which goes through a full ATLAS translation. non-trivial = >=3 distinct "
    "names with >=2 dependency edges, or a duplicate name with differing depends_on, or an expected ValueError; "
    "distinct by the ordered block list."
)

# ---------------------------------------------------------------- oracle


def expected_error(blocks: List[Block]) -> Optional[str]:
    scripts: Dict[str, Tuple[str, ...]] = {}
    deps: Dict[str, set] = {}
    for name, script, dep in blocks:
        if name in scripts and scripts[name] != script:
            return "conflict"
        scripts.setdefault(name, script)
        deps.setdefault(name, set()).update(dep)
    for n, ds in deps.items():
        for d in ds:
            if d not in scripts:
                return "missing"
    # cycle detection by DFS colouring
    WHITE, GREY, BLACK = 0, 1, 2
    col = {n: WHITE for n in scripts}

    def dfs(n):
        col[n] = GREY
        for d in deps[n]:
            if col[d] == GREY:
                return True
            if col[d] == WHITE and dfs(d):
                return True
        col[n] = BLACK
        return False

    for n in scripts:
        if col[n] == WHITE and dfs(n):
            return "cycle"
    return None


def valid_output(blocks: List[Block], out: List[str]) -> bool:
    scripts: Dict[str, Tuple[str, ...]] = {}
    deps: Dict[str, set] = {}
    for name, script, dep in blocks:
        scripts.setdefault(name, script)
        deps.setdefault(name, set()).update(dep)
    names = sorted(scripts)
    if sum(len(scripts[n]) for n in names) != len(out):
        return False
    out_t = tuple(out)
    memo = {}

    def go(pos: int, done: frozenset) -> bool:
        if len(done) == len(names):
            return pos == len(out_t)
        key = (pos, done)
        if key in memo:
            return memo[key]
        r = False
        for n in names:
            if n in done or not deps[n] <= done:
                continue
            s = scripts[n]
            if out_t[pos : pos + len(s)] == s:
                if go(pos + len(s), done | {n}):
                    r = True
                    break
        memo[key] = r
        return r

    return go(0, frozenset())


def nontrivial(blocks: List[Block], err: Optional[str]) -> bool:
    if err is not None:
        return True
    names = {b[0] for b in blocks}
    edges = {(b[0], d) for b in blocks for d in b[2]}
    if len(names) >= 3 and len(edges) >= 2:
        return True
    by = {}
    for n, s, d in blocks:
        if n in by and set(by[n]) != set(d):
            return True
        by.setdefault(n, d)
    return False


def labels(blocks, err):
    l = ["n_blocks=%d" % len(blocks), "expect=" + (err or "ok")]
    names = [b[0] for b in blocks]
    if len(set(names)) < len(names):
        l.append("has_duplicate_name")
    if any(not b[1] for b in blocks):
        l.append("has_empty_script")
    return l


# ---------------------------------------------------------------- system under test


def sut_direct(blocks: List[Block]):
    from func_adl_xAOD.common.meta_data import JobScriptSpecification, generate_script_block

    specs = [JobScriptSpecification(name=n, script=list(s), depends_on=list(d)) for n, s, d in blocks]
    try:
        return ("ok", list(generate_script_block(specs)))
    except ValueError:
        return ("ValueError", None)
    except Exception as e:  # any other exception type is a violation
        return ("other:" + type(e).__name__, None)


def sut_rendered(blocks: List[Block]):
    """The same blocks sent as add_job_script metadata through a full ATLAS translation."""
    from vf.xlate import translate

    q = "EventDataset('ds')"
    # innermost MetaData call is the first one written by a user: blocks[0] innermost
    for n, s, d in blocks:
        md = {"metadata_type": "add_job_script", "name": n, "script": list(s), "depends_on": list(d)}
        q = f"MetaData({q}, {md!r})"
    q = f"Select({q}, lambda e: e.EventInfo('EventInfo').runNumber())"
    try:
        pkg = translate(q, "atlas")
    except ValueError:
        return ("ValueError", None, None)
    except Exception as e:
        return ("other:" + type(e).__name__, None, None)
    txt = pkg.files["ATestRun_eljob.py"]
    a = txt.index("job.sampleHandler(sh)") + len("job.sampleHandler(sh)")
    b = txt.index("# Create the algorithm's configuration.")
    lines = [l for l in txt[a:b].split("\n")]
    return ("ok", lines, None)


def check_case(blocks: List[Block], via: str = "direct"):
    err = expected_error(blocks)
    if via == "direct":
        tag, out = sut_direct(blocks)
        order = blocks
    else:
        tag, out, _ = sut_rendered(blocks)
        # extract_metadata reports metadata outermost first -> the executor sees the reverse order
        order = list(reversed(blocks))
    rep = {"via": via, "blocks": [list(map(list, (([b[0]], b[1], b[2])))) for b in blocks]}
    rep["blocks"] = [{"name": b[0], "script": list(b[1]), "depends_on": list(b[2])} for b in blocks]
    if tag.startswith("other:"):
        raise Violation("wrong-exception-" + tag[6:], f"{tag[6:]} raised instead of ValueError/result for {blocks}", rep)
    if err is not None:
        if tag != "ValueError":
            raise Violation("missing-error-" + err, f"expected ValueError ({err}) but a script was produced: {out}", rep)
        return err
    if tag == "ValueError":
        raise Violation("spurious-error", f"ValueError raised for a valid block set {blocks}", rep)
    if via != "direct":
        # rendered: blank template lines surround each emitted line; script lines are non-empty here
        out = [l for l in out if l.strip() != ""]
        order = [(n, tuple(x for x in s if x.strip() != ""), d) for n, s, d in order]
    if not valid_output(order, out):
        raise Violation("bad-order-or-content", f"output {out} is not each block once in dependency order for {blocks}", rep)
    return None


# ---------------------------------------------------------------- exhaustive part

NAMES = ("a", "b", "c")
SCRIPTS = {
    "a": (("x",), ("x", "y")),
    "b": (("y",), ("x",)),
    "c": ((), ("x", "y")),
}
DEPSETS = [tuple(c) for r in range(4) for c in itertools.combinations(NAMES, r)]
BLOCK_TYPES: List[Block] = [(n, s, d) for n in NAMES for s in SCRIPTS[n] for d in DEPSETS]


def exhaustive_worker(payload):
    length, first_indices = payload
    st = Stats()
    for i0 in first_indices:
        for rest in itertools.product(range(len(BLOCK_TYPES)), repeat=length - 1):
            blocks = [BLOCK_TYPES[i0]] + [BLOCK_TYPES[i] for i in rest]
            try:
                err = check_case(blocks)
            except Violation as v:
                if not any(x["key"] == v.key for x in st.violations):
                    st.violation(v.key, v.what, v.replay)
                err = "violation"
            nt = nontrivial(blocks, err)
            st.evaluations += 1
            st.labels["n_blocks=%d" % length] += 1
            st.labels["expect=" + (err or "ok")] += 1
            if nt:
                st.extra["nt_exhaustive"] = st.extra.get("nt_exhaustive", 0) + 1
                if len(st.samples) < 2 and (st.evaluations % 977 == 1):
                    st.samples.append({"via": "direct", "blocks": blocks, "expect": err or "ok"})
    return st


# ---------------------------------------------------------------- random part


def block_lists():
    from hypothesis import strategies as st

    names = st.sampled_from(["n%d" % i for i in range(8)])
    # script lines are Python: indentation, trailing blanks, quotes and template-engine syntax must arrive unchanged
    line = st.sampled_from(["l0", "l1", "l2", "job.x = 1", "import a", "{{ not_a_template }}", "l0", "if job.x:", "    job.y = 2", "\tjob.z = 3", "trailing = 1  ",
                            "s = 'quo\"ted'", "# comment", "a = b < c & d", "{% raw %}", "        deep = 1"])
    script = st.lists(line, min_size=0, max_size=3).map(tuple)

    @st.composite
    def blocks(draw):
        n = draw(st.integers(1, 10))
        pool = draw(st.lists(names, min_size=1, max_size=8, unique=True))
        shape = draw(st.sampled_from(["free", "dag", "dag", "chain", "dupes"]))
        fixed_scripts = {nm: draw(script) for nm in pool}
        out = []
        for i in range(n):
            nm = draw(st.sampled_from(pool))
            if shape == "free":
                deps = draw(st.lists(names, max_size=3).map(tuple))
                sc = draw(script) if draw(st.integers(0, 5)) == 0 else fixed_scripts[nm]
            elif shape == "chain":
                idx = pool.index(nm)
                deps = (pool[idx - 1],) if idx > 0 else ()
                sc = fixed_scripts[nm]
            else:  # dag / dupes: only depend on earlier names in the pool order -> acyclic
                idx = pool.index(nm)
                deps = tuple(draw(st.lists(st.sampled_from(pool[:idx]), max_size=3))) if idx > 0 else ()
                sc = fixed_scripts[nm]
            out.append((nm, sc, deps))
        if shape in ("dag", "chain", "dupes"):
            # make sure every pool name is present so dependencies are satisfiable (most of the time)
            if draw(st.integers(0, 4)) > 0:
                present = {b[0] for b in out}
                for nm in pool:
                    if nm not in present:
                        out.append((nm, fixed_scripts[nm], ()))
            out = draw(st.permutations(out))
        return list(out)

    return blocks()


def random_worker(payload):
    seed, n, n_render, deadline = payload
    st = Stats()

    def body(blocks):
        err = check_case(blocks, "direct")
        st.case(jdump(blocks), nontrivial(blocks, err), labels(blocks, err) + ["via=direct"],
                {"via": "direct", "blocks": blocks, "expect": err or "ok"})

    hyp_search(body, block_lists(), max_examples=n, seed=seed, stats=st, deadline=deadline)

    def body_r(blocks):
        # rendered path: lines must be non-blank single lines for the line-based extraction
        blocks = [(n, tuple(l for l in s), d) for n, s, d in blocks]
        err = check_case(blocks, "rendered")
        st.case("R" + jdump(blocks), nontrivial(blocks, err), labels(blocks, err) + ["via=rendered"],
                {"via": "rendered", "blocks": blocks, "expect": err or "ok"})

    if n_render:
        hyp_search(body_r, block_lists(), max_examples=n_render, seed=derive_seed(seed, "r"), stats=st, deadline=deadline)
    return st


def run(ctx: Ctx):
    ctx.rule = RULE
    ctx.assumptions = [
        "script lines are single non-empty lines when checked through the rendered job options file",
        "metadata order seen by the executor is the reverse of the nesting order (func_adl extract_metadata)",
    ]
    max_len = 3 if ctx.quick else 4
    nb = len(BLOCK_TYPES)
    payloads = []
    for length in range(1, max_len + 1):
        if length <= 2:
            payloads.append((length, list(range(nb))))
        else:
            for i in range(nb):
                payloads.append((length, [i]))
    for st in run_shards("vf.props.C15", "exhaustive_worker", payloads):
        nt = st.extra.pop("nt_exhaustive", 0)
        ctx.stats.merge(st)
        ctx.stats.extra["exhaustive_nontrivial"] = ctx.stats.extra.get("exhaustive_nontrivial", 0) + nt
    ctx.stats.extra["exhaustive_cases"] = ctx.stats.evaluations
    ctx.stats.extra["exhaustive_bound"] = f"all ordered lists of <= {max_len} blocks over {nb} block types"
    n = ctx.n(5000, 200000)
    nr = ctx.n(160, 3200)
    shards = 16
    payloads = [(derive_seed(ctx.seed, "C15", i), n // shards, nr // shards, ctx.deadline) for i in range(shards)]
    for st in run_shards("vf.props.C15", "random_worker", payloads):
        ctx.stats.merge(st)
    # distinct non-trivial: hashed random cases + counted exhaustive ones (all distinct by construction)
    for i in range(ctx.stats.extra.get("exhaustive_nontrivial", 0)):
        pass
    ctx.stats.extra["distinct_nontrivial_random"] = len(ctx.stats.nontrivial)
    # exhaustive cases are pairwise distinct by enumeration; represent them in the distinct count
    ctx.stats.nontrivial |= {"exh%d" % i for i in range(ctx.stats.extra.get("exhaustive_nontrivial", 0))}
    ctx.exhaustive = False  # the random part is not exhaustive; the bounded part is (see exhaustive_bound)


def replay(case):
    blocks = [(b["name"], tuple(b["script"]), tuple(b["depends_on"])) for b in case["blocks"]]
    try:
        check_case(blocks, case.get("via", "direct"))
    except Violation as v:
        return [{"key": v.key, "what": v.what}]
    return []
