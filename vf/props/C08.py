"""C08 - translation is invariant under wire format, bound names and metadata position.

Metamorphic on rendered text: a generated base query and a variant (qastle round trip; capture-
avoiding alpha-renaming incl. shadowing; MetaData calls moved along the chain keeping their relative
order; Select.Select / Where.Where written split or fused) must both translate (or raise the same
exception type) to packages equal up to the numbering of generated names (vf/norm.py)."""
from __future__ import annotations

import ast
import copy
from typing import List, Optional

from hypothesis import strategies as st

from vf.core import Ctx, Discard, Stats, Violation, derive_seed, hyp_search, jdump, run_shards
from vf.gen.metadata import job_scripts, simple_cpp_functions, valid_code_blocks
from vf.gen.query import Features, QGen, TEvt, TObj, dataset_text, queries
from vf.model.schema import standard_schema
from vf.norm import compare_packages
from vf.xlate import BACKENDS, translate

RULE = (
    "case = (back end, generated base query with metadata, relation, variant). relations: qastle = python->qastle text->python round "
    "trip; alpha = random capture-avoiding renaming of lambda parameters (fresh names, or an outer parameter's name when the inner lambda "
    "does not mention it); sibling-names = the filter parameter of a value computed in one Select step called like the parameters of the filters a later step applies (no lexical shadowing); shadow = one inner parameter renamed to an enclosing parameter's name that the inner lambda never mentions; metadata = every MetaData call re-attached at a random place of the main chain, relative order "
    "kept; fuse = a generated Select(F).Select(G) / Where(P).Where(Q) column written split vs fused (G linear in its parameter). "
    "non-trivial = the variant's source differs from the base AND (alpha: >=1 nested lambda; metadata: >=2 chain steps and >=1 moved call; "
    "fuse/qastle: always); distinct by (base, variant)."
)


# ---------------------------------------------------------------- relations on ASTs


def parse(t):
    return ast.parse(t, mode="eval").body


def rel_qastle(q: ast.AST):
    import qastle

    return qastle.text_ast_to_python_ast(qastle.python_ast_to_text_ast(copy.deepcopy(q))).body[0].value


def names_in(node) -> set:
    return {n.id for n in ast.walk(node) if isinstance(n, ast.Name)} | {a.arg for n in ast.walk(node) if isinstance(n, ast.Lambda) for a in n.args.args}


class _Subst(ast.NodeTransformer):
    """rename free occurrences of `old` (those bound by the lambda being renamed)"""

    def __init__(self, old, new):
        self.old, self.new = old, new

    def visit_Lambda(self, node):
        if any(a.arg == self.old for a in node.args.args):
            return node  # rebinding: inner occurrences belong to the inner lambda
        return self.generic_visit(node)

    def visit_Name(self, node):
        if node.id == self.old:
            node.id = self.new
        return node


def rel_alpha(q: ast.AST, draw) -> ast.AST:
    q = copy.deepcopy(q)
    counter = [0]
    used = names_in(q)
    all_params = {a.arg for l_ in ast.walk(q) if isinstance(l_, ast.Lambda) for a in l_.args.args}

    def fresh():
        while True:
            counter[0] += 1
            stem = draw(st.sampled_from(["arg_", "zz", "k", "arg_", "ev", "obj", "arg_", "i_obj", "result", "e"]))
            # `arg_<n>` is what func_adl calls the parameters of the lambdas it builds while fusing: n is taken from the range it will
            # use for this very translation (check() pins func_adl's counter to ARG_BASE)
            n = stem + str(ARG_BASE + draw(st.sampled_from([0, 0, 0, 1, 1, 2, 3, 4, 6])) if stem == "arg_" else counter[0])
            if n not in used:
                used.add(n)
                return n

    def walk(node, outer: List[str]):
        if isinstance(node, ast.Lambda):
            for a in node.args.args:
                choice = draw(st.integers(0, 3))
                if choice == 0:
                    continue
                inside = names_in(node.body) | {x.arg for x in node.args.args}
                cands = [o for o in outer if o not in inside]
                siblings = sorted(all_params - inside - set(outer))
                if choice == 1 and cands:
                    new = draw(st.sampled_from(cands))  # shadow an outer parameter this lambda never mentions
                elif choice == 2 and siblings:
                    # the name of a parameter of ANOTHER lambda of the query that is not in scope here (a sibling, a lambda of another step of the chain)
                    new = draw(st.sampled_from(siblings))
                else:
                    new = fresh()
                old = a.arg
                a.arg = new
                node.body = _Subst(old, new).visit(node.body)
            walk(node.body, outer + [a.arg for a in node.args.args])
            return
        for ch in ast.iter_child_nodes(node):
            walk(ch, outer)

    walk(q, [])
    return ast.fix_missing_locations(q)


ARG_BASE = 1000
S_BASE = 500


def rel_reserved(q: ast.AST, draw):
    """alpha-rename one or two lambda parameters to the very names func_adl will invent during this translation (`arg_<n>`)"""
    q = copy.deepcopy(q)
    used = names_in(q)
    lambdas = [n for n in ast.walk(q) if isinstance(n, ast.Lambda) and n.args.args]
    if not lambdas:
        return q, 0
    done = 0
    for _ in range(draw(st.integers(1, 2))):
        node = lambdas[draw(st.integers(0, len(lambdas) - 1))]
        a = node.args.args[0]
        params = sorted({x.arg for l_ in lambdas for x in l_.args.args})
        if draw(st.integers(0, 2)) == 0:
            # ... or the name the executor itself would give to a shadowing parameter (<name>_s<n>, n from a counter that outcome() pins)
            new = f"{draw(st.sampled_from(params))}_s{S_BASE + draw(st.sampled_from([0, 0, 1, 2]))}"
        elif draw(st.integers(0, 2)) == 0:
            # ... or the names the Sum / Count / Min / Max shortcuts use for the lambdas they turn into
            new = draw(st.sampled_from(["v", "acc", "v"]))
        else:
            new = f"arg_{ARG_BASE + draw(st.sampled_from([0, 0, 1, 2, 3]))}"
        if new in used or a.arg.startswith("arg_"):
            continue
        used.add(new)
        old = a.arg
        a.arg = new
        node.body = _Subst(old, new).visit(node.body)
        done += 1
    return ast.fix_missing_locations(q), done


def rel_shadow(q: ast.AST, draw):
    """Rename the parameter of an inner lambda to the name of an ENCLOSING lambda's parameter that the inner lambda
    never mentions (pure shadowing).  Returns (variant, number of candidate (outer, inner) pairs)."""
    q = copy.deepcopy(q)
    pairs = []

    def walk(node, outer):
        if isinstance(node, ast.Lambda):
            inside = names_in(node.body) | {x.arg for x in node.args.args}
            for o in outer:
                if o not in inside:
                    for a in node.args.args:
                        pairs.append((node, a, o))
            walk(node.body, outer + [a.arg for a in node.args.args])
            return
        for ch in ast.iter_child_nodes(node):
            walk(ch, outer)

    walk(q, [])
    if not pairs:
        return q, 0
    npairs = len(pairs)
    # prefer shadowing something other than the event variable (collection calls never resolve their receiver)
    pairs.sort(key=lambda p_: p_[2] == "e")
    k = draw(st.integers(0, min(len(pairs), 4) - 1))
    node, a, o = pairs[k]
    old = a.arg
    a.arg = o
    node.body = _Subst(old, o).visit(node.body)
    # ... and sometimes further lambdas shadow the SAME outer parameter (siblings, successive steps of one chain)
    for _ in range(draw(st.integers(0, 2))):
        pairs.clear()
        walk(q, [])
        more = [p_ for p_ in pairs if p_[2] == o and p_[1].arg != o]
        if not more:
            break
        node2, a2, _o = more[draw(st.integers(0, min(len(more), 4) - 1))]
        old2 = a2.arg
        a2.arg = o
        node2.body = _Subst(old2, o).visit(node2.body)
    return ast.fix_missing_locations(q), npairs


def chain_nodes(q: ast.AST) -> List[ast.Call]:
    out = []
    n = q
    while isinstance(n, ast.Call) and isinstance(n.func, ast.Name) and n.args:
        out.append(n)
        if n.func.id == "EventDataset":
            break
        n = n.args[0]
    return out


def rel_metadata(q: ast.AST, draw):
    q = copy.deepcopy(q)
    # strip MetaData calls from the main chain
    mds = []

    def strip(n):
        if isinstance(n, ast.Call) and isinstance(n.func, ast.Name) and n.func.id == "MetaData":
            mds.append(n.args[1])
            return strip(n.args[0])
        if isinstance(n, ast.Call) and isinstance(n.func, ast.Name) and n.func.id != "EventDataset" and n.args:
            n.args[0] = strip(n.args[0])
        return n

    q = strip(q)
    if not mds:
        return q, 0, 0
    chain = [c for c in chain_nodes(q)]
    steps = len(chain)  # insertion slots: 0 = around the whole query, k = around chain[k-1].args[0]
    slots = sorted(draw(st.lists(st.integers(0, steps - 1), min_size=len(mds), max_size=len(mds))))
    # mds is outermost-first; slots ascending keep the relative nesting order
    moved = 0
    per_slot = {}
    for md, s in zip(mds, slots):
        per_slot.setdefault(s, []).append(md)
    for s in sorted(per_slot, reverse=True):
        lst = per_slot[s]
        if s == 0:
            for md in reversed(lst):
                q = ast.Call(func=ast.Name(id="MetaData", ctx=ast.Load()), args=[q, md], keywords=[])
            # re-derive chain parent pointers not needed below slot 0
        else:
            parent = chain[s - 1]
            inner = parent.args[0]
            for md in reversed(lst):
                inner = ast.Call(func=ast.Name(id="MetaData", ctx=ast.Load()), args=[inner, md], keywords=[])
            parent.args[0] = inner
    return ast.fix_missing_locations(q), steps, len(mds)


# ---------------------------------------------------------------- generators

G_TEMPLATES = ["V * 2 + 1", "abs(V)", "(V + 0.5) / 4", "(V if 1 > 0 else 0)", "sqrt(fabs(V))", "0 - V", "V ** 2"]


@st.composite
def fuse_pairs(draw, backend):
    sch = standard_schema(backend)
    g = QGen(draw, sch, Features(first=False, index=False))
    ds = dataset_text(sch)
    sc = [("e", TEvt())]
    os_ = g.objseq(sc, 0)
    v = "j"
    kind = draw(st.sampled_from(["select", "where", "both"]))
    F, _ = g.num(sc + [(v, TObj(os_[1]))], 1)
    G = draw(st.sampled_from(G_TEMPLATES))
    P = g.boolean(sc + [(v, TObj(os_[1]))], 1)
    Q = g.boolean(sc + [(v, TObj(os_[1]))], 0)
    if kind == "select":
        split = f"{os_[0]}.Select(lambda {v}: {F}).Select(lambda w: {G.replace('V', 'w')})"
        fused = f"{os_[0]}.Select(lambda {v}: {G.replace('V', '(' + F + ')')})"
    elif kind == "where":
        split = f"{os_[0]}.Where(lambda {v}: {P}).Where(lambda {v}: {Q}).Select(lambda {v}: {F})"
        fused = f"{os_[0]}.Where(lambda {v}: ({P}) and ({Q})).Select(lambda {v}: {F})"
    else:
        split = f"{os_[0]}.Where(lambda {v}: {P}).Where(lambda {v}: {Q}).Select(lambda {v}: {F}).Select(lambda w: {G.replace('V', 'w')})"
        fused = f"{os_[0]}.Where(lambda {v}: ({P}) and ({Q})).Select(lambda {v}: {G.replace('V', '(' + F + ')')})"
    use = draw(st.sampled_from(["column", "sum", "count"]))
    tail = {"column": "", "sum": ".Sum()", "count": ".Count()"}[use]
    other, _ = g.column(sc, 1)
    a = f"Select({ds}, lambda e: ({split}{tail}, {other}))"
    b = f"Select({ds}, lambda e: ({fused}{tail}, {other}))"
    return a, b, "fuse-" + kind


def base_queries(backend):
    sch = standard_schema(backend)
    fmd, funcs, _ = simple_cpp_functions()

    @st.composite
    def q(draw):
        blocks = draw(valid_code_blocks(backend, 2))
        scripts = draw(job_scripts(2)) if backend == "atlas" else []
        use_funcs = draw(st.booleans())
        feat = Features(user_funcs=funcs if use_funcs else (), unary=False)
        qq = draw(queries(sch, feat, extra_md=list(blocks) + list(scripts) + (fmd if use_funcs else [])))
        return qq

    return q()


CHAIN_PROFILE = {"atlas": ("Jets", "AntiKt4", ["weights", "sumPt"], ["pt", "eta", "m"]), "cms_aod": ("Muons", "muons", ["chi2s", "segments"], ["pt", "eta"]),
                 "cms_miniaod": ("Muons", "slimmedMuons", ["chi2s", "segments"], ["pt", "eta"])}


@st.composite
def shadow_chain(draw, backend):
    """inside a loop over j: a chain over another collection of the event - filters on its objects, a step to numbers (Select of a
    number or SelectMany of a vector: the flattening is what func_adl fuses with what follows), number steps of which one mentions j.
    Base: all parameters distinct; variant: a drawn non-empty subset of the steps that do not mention j call their parameter j too."""
    sch = standard_schema(backend)
    acc, bank, vecs, nums = CHAIN_PROFILE[backend]
    bank2 = draw(st.sampled_from([bank, "other"]))
    steps = []  # (operator, body template with {x}, mentions j)
    for _ in range(draw(st.integers(0, 2))):
        steps.append(("Where", "{x}." + draw(st.sampled_from(nums)) + "() > " + draw(st.sampled_from(["0", "1.5", "-1"])), False))
    if draw(st.integers(0, 2)) > 0:
        steps.append(("SelectMany", "{x}." + draw(st.sampled_from(vecs)) + "()", False))
    else:
        steps.append(("Select", "{x}." + draw(st.sampled_from(nums)) + "()", False))
    for _ in range(draw(st.integers(0, 1))):
        steps.append(draw(st.sampled_from([("Where", "{x} > 0", False), ("Select", "{x} * 2", False)])))
    m = draw(st.sampled_from(nums))
    steps.append(draw(st.sampled_from([("Select", "{x} * j." + m + "()", True), ("Where", "{x} > j." + m + "()", True), ("Select", "j." + m + "() - {x}", True)])))
    if draw(st.booleans()):
        steps.append(("Select", "{x} + 2", False))
    term = draw(st.sampled_from(["Sum()", "Count()"]))
    free = [i for i, st_ in enumerate(steps) if not st_[2]]
    renamed = draw(st.sets(st.sampled_from(free), min_size=1, max_size=len(free)))
    # ... and sometimes a lambda that binds another name lies between j and the chain (j is then bound TWO lambdas out)
    between = draw(st.sampled_from([None, None, f"e.{acc}({bank2!r}).Select(lambda mid: CHAIN)", "Range(0, 2).Select(lambda mid: CHAIN)"]))

    def text(shadow):
        t = f"e.{acc}({bank2!r})"
        for i, (kind, body, _m) in enumerate(steps):
            x = "j" if (shadow and i in renamed) else f"p{i}"
            t += f".{kind}(lambda {x}: {body.format(x=x)})"
        chain = f"{t}.{term}"
        if between is not None:
            chain = between.replace("CHAIN", chain)
        return f"Select({dataset_text(sch)}, lambda e: e.{acc}({bank!r}).Select(lambda j: {chain}))"

    return text(False), text(True), len(renamed)


@st.composite
def sibling_names(draw, backend):
    """a value handed on in a dictionary next to a count that was computed with a filter of its own; the next step filters the value twice (func_adl fuses
    the two filters, re-visiting what it has substituted under the filter's parameter name).  Base: the first step's filter parameter has a name of its own;
    variant: it is called like the later filters' parameter (no lexical shadowing anywhere: they are siblings in different steps)."""
    sch = standard_schema(backend)
    acc, bank, vecs, nums = CHAIN_PROFILE[backend]
    m1, m2, m3, m4 = (draw(st.sampled_from(nums)) for _ in range(4))
    c1, c2 = draw(st.sampled_from(["25", "1.5", "0"])), draw(st.sampled_from(["1", "2.5", "-1"]))
    second = draw(st.sampled_from([f"d.js.Where(lambda j: j.{m2}() > d.n).Where(lambda j: j.{m3}() < {c2}).Select(lambda j: j.{m4}())",
                                   f"d.js.Where(lambda j: j.{m2}() > d.n).Where(lambda j: j.{m3}() < {c2}).Count()",
                                   f"d.js.Where(lambda j: j.{m2}() > {c2}).Where(lambda j: j.{m3}() < d.n).Select(lambda j: j.{m4}() + d.n)"]))

    def text(p):
        return (f"Select(Select({dataset_text(sch)}, lambda e: {{'js': e.{acc}({bank!r}), 'n': e.{acc}('other').Where(lambda {p}: {p}.{m1}() > {c1}).Count()}}), "
                f"lambda d: {second})")

    return text("t"), text("j"), 1


@st.composite
def reserved_shadow(draw, backend):
    """three nested lambdas x > j > q where q's lambda mentions x but not j.  Variant: q is called j (pure shadowing: the executor will rename it to
    j_s<n>) and x is called by the very name the executor is about to invent (outcome() pins its counter to S_BASE)."""
    sch = standard_schema(backend)
    acc, bank, vecs, nums = CHAIN_PROFILE[backend]
    v1, v2 = draw(st.sampled_from(vecs)), draw(st.sampled_from(vecs))
    m = draw(st.sampled_from(nums))
    c = draw(st.sampled_from(["0", "1.5", "-1"]))
    agg = draw(st.sampled_from(["Count()", "Sum()"]))
    k = draw(st.sampled_from([0, 0, 1]))

    def text(x, j, q):
        inner = f"{x}.{v2}().Where(lambda {q}: {q} > {x}.{m}() + {c}).{agg}"
        return f"Select(SelectMany({dataset_text(sch)}, lambda e: e.{acc}({bank!r})), lambda {x}: {x}.{v1}().Select(lambda {j}: {inner} + {j}))"

    return text("x0", "j", "q0"), text(f"j_s{S_BASE + k}", "j", "j"), 2


@st.composite
def shortcut_names(draw, backend):
    """an outer parameter that a Select feeding Sum / Max / Min / Count mentions; variant: that parameter is called v or acc - the names the
    shortcuts' own lambdas use"""
    sch = standard_schema(backend)
    acc_, bank, vecs, nums = CHAIN_PROFILE[backend]
    v1 = draw(st.sampled_from(vecs))
    m = draw(st.sampled_from(nums))
    agg = draw(st.sampled_from(["Sum()", "Sum()", "Max()", "Count()", "Min()"]))
    how = draw(st.sampled_from(["select", "where", "lambda-call"]))
    new = draw(st.sampled_from(["v", "acc", "v"]))

    def text(x):
        if how == "select":
            inner = f"{x}.{v1}().Select(lambda w: w * {x}.{m}()).{agg}"
        elif how == "where":
            inner = f"{x}.{v1}().Where(lambda w: w > {x}.{m}()).Select(lambda u: u + 1).{agg}"
        else:
            return (f"Select({dataset_text(sch)}, lambda e: (lambda {x}: e.{acc_}({bank!r}).Select(lambda j: j.{m}() * {x}).{agg})"
                    f"(e.{acc_}({bank!r}).Count()))")
        return f"Select(SelectMany({dataset_text(sch)}, lambda e: e.{acc_}({bank!r})), lambda {x}: {inner})"

    return text("x0"), text(new), 1


@st.composite
def cases(draw, backend):
    rel = draw(st.sampled_from(["qastle", "alpha", "shadow", "shadow", "metadata", "fuse", "shadow-chain", "reserved", "reserved-shadow", "shortcut-names", "sibling-names"]))
    if rel == "sibling-names":
        a, b, n = draw(sibling_names(backend))
        return {"backend": backend, "rel": "alpha", "a": a, "b": b, "nested": True, "info": {"reserved_names": n}, "labels": ["sibling-names"]}
    if rel == "shortcut-names":
        a, b, n = draw(shortcut_names(backend))
        return {"backend": backend, "rel": "alpha", "a": a, "b": b, "nested": True, "info": {"reserved_names": n}, "labels": ["shortcut-names"]}
    if rel == "reserved-shadow":
        a, b, n = draw(reserved_shadow(backend))
        return {"backend": backend, "rel": "alpha", "a": a, "b": b, "nested": True, "info": {"reserved_names": n}, "labels": ["reserved-shadow"]}
    if rel == "shadow-chain":
        a, b, n = draw(shadow_chain(backend))
        return {"backend": backend, "rel": "shadow", "a": a, "b": b, "nested": True, "info": {"shadow_pairs": n, "shadow_chain": True}, "labels": ["shadow-chain"]}
    if rel == "fuse":
        a, b, sub = draw(fuse_pairs(backend))
        return {"backend": backend, "rel": sub, "a": a, "b": b, "nested": True, "info": {}}
    q = draw(base_queries(backend))
    base = parse(q.text)
    info = {}
    if rel == "qastle":
        try:
            var = rel_qastle(base)
        except Exception as e:
            return {"backend": backend, "rel": rel, "a": q.text, "b": None, "discard": "qastle: " + type(e).__name__, "nested": False, "info": {}}
    elif rel == "alpha":
        var = rel_alpha(base, draw)
    elif rel == "shadow":
        var, npairs = rel_shadow(base, draw)
        info = {"shadow_pairs": npairs}
    elif rel == "reserved":
        if draw(st.integers(0, 2)) == 0:
            # names the TRANSLATOR knows: the root of a namespace this very query declares (define_enum), a function of its table, a collection accessor.
            # A lambda parameter of that name is the parameter (python's scoping), whatever else the name means outside the lambda.
            ns = draw(st.sampled_from(["xAOD", "MyNS", "reco"]))
            md = {"metadata_type": "define_enum", "namespace": ns + ".Obj", "name": "Kind", "values": ["A", "B"]}
            wrap = lambda t: t.replace("EventDataset('ds')", f"MetaData(EventDataset('ds'), {md!r})", 1)
            base = parse(wrap(q.text))
            var = copy.deepcopy(base)
            used = names_in(var)
            lambdas = [n for n in ast.walk(var) if isinstance(n, ast.Lambda) and n.args.args]
            accessors = {c.accessor for c in standard_schema(backend).colls}
            # (prefer parameters the translator really looks up: the event parameter only ever stands in front of a collection accessor, which drops it)
            looked_up = [l for l in lambdas if any(isinstance(n, ast.Name) and n.id == l.args.args[0].arg for n in ast.walk(l.body))
                         and not all(isinstance(p_, ast.Attribute) and p_.attr in accessors for p_ in ast.walk(l.body) if isinstance(p_, ast.Attribute) and isinstance(p_.value, ast.Name) and p_.value.id == l.args.args[0].arg)]
            if looked_up and draw(st.integers(0, 4)) > 0:
                lambdas = looked_up
            nren = 0
            new = draw(st.sampled_from([ns, ns, ns, "sin", "abs", "DeltaR", "Select", "Jets", "Muons", "First"]))
            if lambdas and new not in used:
                node = lambdas[draw(st.integers(0, len(lambdas) - 1))]
                old = node.args.args[0].arg
                node.args.args[0].arg = new
                node.body = _Subst(old, new).visit(node.body)
                nren = 1
            var = ast.fix_missing_locations(var)
            info = {"reserved_names": nren}
            nested = any(isinstance(n, ast.Lambda) for l in ast.walk(base) if isinstance(l, ast.Lambda) for n in ast.walk(l.body))
            return {"backend": backend, "rel": "alpha", "a": ast.unparse(base), "b": ast.unparse(var), "b_ast": var, "nested": nested, "info": info, "labels": sorted(q.labels) + ["translator-known-name"]}
        var, nren = rel_reserved(base, draw)
        info = {"reserved_names": nren}
        rel = "alpha"
    else:
        var, steps, n = rel_metadata(base, draw)
        info = {"chain_steps": steps, "metadata_calls": n}
    nested = any(isinstance(n, ast.Lambda) for l in ast.walk(base) if isinstance(l, ast.Lambda) for n in ast.walk(l.body))
    return {"backend": backend, "rel": rel, "a": q.text, "b": ast.unparse(var), "b_ast": var, "nested": nested, "info": info, "labels": sorted(q.labels)}


def outcome(text_or_ast, backend):
    # func_adl numbers the parameters it invents from a process-wide counter: pin it, so that a case means the same in every process
    import func_adl.ast.function_simplifier as _fs

    _fs.argument_var_counter = ARG_BASE
    try:
        import itertools

        import func_adl_xAOD.common.executor as _ex

        if hasattr(_ex, "_rename_shadowing_lambda_args"):
            _ex._rename_shadowing_lambda_args._counter = itertools.count(S_BASE)
    except ImportError:
        pass
    try:
        return ("ok", translate(copy.deepcopy(text_or_ast) if not isinstance(text_or_ast, str) else text_or_ast, backend))
    except Exception as e:
        return ("raise", type(e).__name__ + ": " + str(e)[:150])


def check(c):
    if c.get("discard"):
        raise Discard(c["discard"])
    backend = c["backend"]
    rep = {"backend": backend, "relation": c["rel"], "base": c["a"], "variant": c["b"]}
    ra = outcome(c["a"], backend)
    rb = outcome(c.get("b_ast", c["b"]) if c["rel"] == "qastle" else c["b"], backend)
    if ra[0] != rb[0]:
        raise Violation("accept-differs-" + c["rel"].split("-")[0], f"base {ra[0]} ({ra[1] if ra[0] == 'raise' else 'package'}) but variant {rb[0]} ({rb[1] if rb[0] == 'raise' else 'package'})", rep)
    if ra[0] == "raise":
        if ra[1].split(":")[0] != rb[1].split(":")[0]:
            raise Violation("exception-differs-" + c["rel"].split("-")[0], f"base raises {ra[1]}, variant raises {rb[1]}", rep)
        return "both-raise"
    d = compare_packages(ra[1].files, rb[1].files)
    if d:
        raise Violation("package-differs-" + c["rel"].split("-")[0], f"relation {c['rel']}: {d}", rep)
    if (ra[1].treename, ra[1].filename) != (rb[1].treename, rb[1].filename):
        raise Violation("descriptor-differs", f"descriptors differ: {(ra[1].treename, ra[1].filename)} vs {(rb[1].treename, rb[1].filename)}", rep)
    return "both-translate"


def case_key(c):
    return jdump([c["backend"], c["rel"], c["a"], c["b"]])


def worker(payload):
    seed, n, deadline, backend = payload
    stats = Stats()

    def body(c):
        res = check(c)
        differs = c["a"] != c["b"]
        rel = c["rel"].split("-")[0]
        nt = differs and res == "both-translate"
        if rel in ("alpha", "shadow"):
            nt = nt and c["nested"]
        if rel == "metadata":
            nt = nt and c["info"].get("chain_steps", 0) >= 2 and c["info"].get("metadata_calls", 0) >= 1
        labels = [f"backend={backend}", "relation=" + c["rel"], "outcome=" + res] + (["variant-differs"] if differs else ["variant-identical"])
        stats.case(jdump([backend, c["rel"], c["a"], c["b"]]), nt, labels, {"backend": backend, "relation": c["rel"], "base": c["a"][-300:], "variant": (c["b"] or "")[-300:]})

    hyp_search(body, cases(backend), max_examples=n, seed=seed, stats=stats, deadline=deadline, key_fn=case_key, shrink_budget=150)
    return stats


def run(ctx: Ctx):
    ctx.rule = RULE
    ctx.assumptions = ["base queries avoid a unary minus (qastle folds -c into a constant: same value, different text; covered by value in C18)",
                       "reordering different MetaData calls is not claimed (their order is observable); only their position along the chain moves",
                       "fused forms use a G that mentions its parameter once"]
    total = ctx.n(1600, 40000)
    shards = 16
    payloads = [(derive_seed(ctx.seed, "C08", i), max(1, total // shards), ctx.deadline, BACKENDS[i % 3]) for i in range(shards)]
    for st_ in run_shards("vf.props.C08", "worker", payloads):
        ctx.stats.merge(st_)


def replay(case):
    c = {"backend": case["backend"], "rel": case["relation"], "a": case["base"], "b": case["variant"]}
    if c["rel"] == "qastle":
        c["b_ast"] = rel_qastle(parse(case["base"]))
    try:
        check(c)
    except Violation as v:
        return [{"key": v.key, "what": v.what}]
    except Discard:
        return []
    return []
