"""C14 - injected code blocks land once, in order, in their documented places.

Generated: multisets of 0-4 inject_code blocks (any subset of the seven fields, 0-3 lines each; lines
are arbitrary printable text incl. template-engine syntax, quotes, <&>, non-ASCII, leading / trailing
blanks - or a valid C++ family so that the result can be compiled and run), duplicates, conflicts,
unknown fields, nameless blocks; ATLAS, and body_includes on both CMS back ends.
Oracle: differential against the same query rendered without blocks: the with-blocks files must be
the baseline (equal up to numbering) plus, at the structural anchor of each documented region, exactly
the multiset of that field's lines over the distinct blocks, verbatim, each block's lines in order.
For the C++ family the compiled job must print every marker once, constructor before initialize()."""
from __future__ import annotations

import re
from collections import Counter
from typing import Dict, List, Optional, Tuple

from hypothesis import strategies as st

from vf import cxx
from vf.core import Ctx, Discard, Stats, Violation, derive_seed, hyp_search, jdump, run_shards
from vf.gen.metadata import FIELDS, valid_code_blocks
from vf.model.schema import standard_schema
from vf.norm import Renaming, compare_text
from vf.xlate import BACKENDS, translate

RULE = (
    "case = (back end, host query, ordered list of 0-4 inject_code blocks with drawn fields/lines, optional duplicate / conflicting / "
    "unknown-field / nameless block). non-trivial = >=2 distinct blocks touching >=3 fields, or a line containing template-engine syntax, or an "
    "expected error; distinct by (back end, block list)."
)

HOSTS = {
    "atlas": "Select({DS}, lambda e: (e.Jets('AntiKt4').Select(lambda j: j.pt()), e.EventInfo('EventInfo').runNumber()))",
    "cms_aod": "Select({DS}, lambda e: e.Muons('muons').Select(lambda m: m.pt()))",
    "cms_miniaod": "Select({DS}, lambda e: e.Muons('slimmedMuons').Select(lambda m: m.pt()))",
}

LINE_POOL = ["int a;", "a(10)", "a = a * 2;", "tool->initialize();", "{{ i }}", "{% for x in y %}", "{# comment #}", "{{ l }} %}", "std::cout << \"hi\" << '\\n';",
             "x < y && y > z", "<b>&amp;</b>", "naïve = 1;", "  indented", "trailing   ", "\tTab", "a.h", "dir/file.hpp", "TrigDecisionToolLib", "Lib-with-dash",
             "}", "{", "};", "return StatusCode::SUCCESS;", "#include <TTree.h>", "// comment", "%}", "{%- endfor %}", "it's", "`$HOME`", "\\n", "\\"]


def line_strategy(field):
    if field == "link_libraries":
        # one CMake argument each: no blanks, quotes, parentheses, ';' or '#'
        return st.one_of(st.sampled_from(["TrigDecisionToolLib", "xAODJet", "Lib-with-dash", "A.B", "{{x}}", "{%y%}", "lib_1"]),
                         st.text(alphabet="abcXYZ012_-.{}%", min_size=1, max_size=8))
    base = st.one_of(st.sampled_from(LINE_POOL), st.text(alphabet=st.characters(blacklist_categories=("Cc", "Cs", "Zl", "Zp")), min_size=1, max_size=12))
    return base.filter(lambda s: s.strip() != "" and "\n" not in s and "\r" not in s)


@st.composite
def blocks_strategy(draw, backend):
    n = draw(st.integers(0, 4))
    blocks = []
    for k in range(n):
        b = {"metadata_type": "inject_code", "name": f"block{k}"}
        fields = draw(st.sets(st.sampled_from(FIELDS), min_size=0, max_size=7)) if backend == "atlas" else draw(st.sets(st.sampled_from(["body_includes", "body_includes", "ctor_lines", "private_members"]), max_size=2))
        for f in sorted(fields):
            b[f] = draw(st.lists(line_strategy(f), min_size=0, max_size=3))
        blocks.append(b)
    mode = draw(st.sampled_from(["plain", "plain", "plain", "duplicate", "conflict", "unknown-field", "nameless"]))
    expect = None
    if mode == "duplicate" and blocks:
        dup = dict(draw(st.sampled_from(blocks)))
        if draw(st.booleans()):
            # the same content spelled differently: a field without lines is the same as a field that is absent
            for f in (FIELDS if backend == "atlas" else ["body_includes", "ctor_lines", "private_members"]):
                if f in dup and dup[f] == [] and draw(st.booleans()):
                    del dup[f]
                elif f not in dup and draw(st.booleans()):
                    dup[f] = []
        blocks.insert(draw(st.integers(0, len(blocks))), dup)
    elif mode == "conflict" and blocks:
        c = dict(draw(st.sampled_from(blocks)))
        # how the second block of that name differs: one more line; the SAME lines in another order; one of its lines twice; a line less;
        # a line moved to another field (content compared as the ordered lines of every field, not as a set of lines)
        how = draw(st.sampled_from(["extra", "reorder", "repeat", "drop", "move"]))
        multi = [f for f in sorted(c) if isinstance(c[f], list) and len(c[f]) >= 2 and c[f] != list(reversed(c[f]))]
        some = [f for f in sorted(c) if isinstance(c[f], list) and len(c[f]) >= 1]
        ffs = FIELDS if backend == "atlas" else ["body_includes", "ctor_lines", "private_members"]
        if how == "reorder" and multi:
            f = draw(st.sampled_from(multi))
            c[f] = list(reversed(c[f]))
        elif how == "repeat" and some:
            f = draw(st.sampled_from(some))
            c[f] = list(c[f]) + [draw(st.sampled_from(c[f]))]
        elif how == "drop" and some:
            f = draw(st.sampled_from(some))
            c[f] = list(c[f])[:-1]
        elif how == "move" and some and backend == "atlas":
            f = draw(st.sampled_from(some))
            g = draw(st.sampled_from([x for x in ffs if x != f and x != "link_libraries" and f != "link_libraries"] or [f]))
            if g != f:
                c[g] = list(c.get(g, [])) + [c[f][-1]]
                c[f] = list(c[f])[:-1]
            else:
                c[f] = list(c[f]) + ["conflicting_line;"]
        else:
            how = "extra"
            f = draw(st.sampled_from(FIELDS))
            c[f] = list(c.get(f, [])) + ["conflicting_line;"]
        mode = "conflict-" + how
        blocks.insert(draw(st.integers(0, len(blocks))), c)
        expect = "ValueError"
    elif mode == "unknown-field":
        b = {"metadata_type": "inject_code", "name": "blockX", draw(st.sampled_from(["body_include", "includes", "code", "members"])): ["x"]}
        blocks.insert(draw(st.integers(0, len(blocks))), b)
        expect = "ValueError"
    elif mode == "nameless":
        b = {"metadata_type": "inject_code", "ctor_lines": ["int q = 1;"]}
        blocks.insert(draw(st.integers(0, len(blocks))), b)
        expect = "ValueError"
    if (mode == "duplicate" or mode.startswith("conflict")) and blocks and draw(st.booleans()):
        # another kind of metadata that happens to carry the name of a block, somewhere in the list (a helper that attaches a block AND a
        # function / script of the same name on every use): names of blocks are compared among blocks only
        nm = draw(st.sampled_from([b["name"] for b in blocks if "name" in b]))
        other = draw(st.sampled_from([
            {"metadata_type": "add_cpp_function", "name": nm, "include_files": [], "arguments": ["a"], "code": ["double result = a;"], "return_type": "double"},
            {"metadata_type": "add_job_script", "name": nm, "script": ["# namesake script"], "depends_on": []},
        ]))
        blocks.insert(draw(st.integers(0, len(blocks))), other)
        mode = mode + "+namesake"
    return {"backend": backend, "blocks": blocks, "expect": expect, "mode": mode}


def build_query(backend, blocks):
    ds = "EventDataset('ds')"
    # first block innermost (as a user chaining .MetaData() calls would write them)
    for b in blocks:
        ds = f"MetaData({ds}, {b!r})"
    return HOSTS[backend].replace("{DS}", ds)


def nonblank(text: str) -> List[str]:
    return [l for l in text.split("\n") if l.strip() != ""]


def distinct_blocks(blocks):
    """blocks with the same name and the same lines in every field count once (a field without lines = an absent field)"""
    seen, keys = [], []
    for b in blocks:
        if b.get("metadata_type") != "inject_code":
            continue  # other metadata in the list (it is part of the block-free baseline too)
        k = {f: v for f, v in b.items() if v != []}
        if k not in keys:
            keys.append(k)
            seen.append(b)
    return seen


REGIONS_ATLAS = [
    # (file, field, anchor regex, 'before'|'after', render)
    ("query.cxx", "body_includes", r"^#include <TTree\.h>$", "before", lambda l: f'#include "{l}"'),
    ("query.cxx", "instance_initialization", r"^\s*: EL::AnaAlgorithm \(name, pSvcLocator\)$", "after", lambda l: f"  ,{l}"),
    ("query.cxx", "ctor_lines", r"^\s*xAOD::TFileAccessTracer::enableDataSubmission\(false\);$", "after", lambda l: f"  {l}"),
    ("query.cxx", "initialize_lines", r"^\s*return StatusCode::SUCCESS;$", "before", lambda l: f"  {l}"),
    ("query.h", "header_includes", r"^#include <AnaAlgorithm/AnaAlgorithm\.h>$", "after", lambda l: f'#include "{l}"'),
    ("query.h", "private_members", r"^\};$", "before", lambda l: f"  {l}"),
]
REGIONS_CMS = [("Analyzer.cc", "body_includes", r'^#include "TTree\.h"$', "before", lambda l: f'#include "{l}"')]


def check_file(fname, base_text, got_text, regions, blocks, ren: Renaming, rep) -> None:
    base = nonblank(base_text)
    got = nonblank(got_text)
    dblocks = distinct_blocks(blocks)
    # insertion points in the baseline (index into `base` BEFORE which the region's lines go)
    points = []
    for (f, field, anchor, side, render) in regions:
        if f != fname:
            continue
        idx = [i for i, l in enumerate(base) if re.match(anchor, l)]
        if not idx:
            from vf.core import HarnessError

            raise HarnessError(f"{fname}: structural anchor for {field} not found in the block-free rendering: the templates were restructured, re-derive the anchors in vf/props/C14.py")
        i = idx[0]
        points.append((i if side == "before" else i + 1, field, render))
    points.sort(key=lambda p: p[0])
    out_base = []
    gi = 0
    bi = 0
    for pos, field, render in points:
        # copy baseline lines up to the insertion point
        n = pos - bi
        out_base.extend(got[gi : gi + n])
        gi += n
        bi = pos
        want = [[render(l) for l in b.get(field, [])] for b in dblocks]
        total = sum(len(w) for w in want)
        run = got[gi : gi + total]
        gi += total
        if Counter(run) != Counter(x for w in want for x in w):
            missing = Counter(x for w in want for x in w) - Counter(run)
            extra = Counter(run) - Counter(x for w in want for x in w)
            raise Violation("region-" + field, f"{fname}: at the place documented for {field} expected exactly the lines {sum(want, [])}; found {run} (missing {list(missing)}, unexpected {list(extra)})", rep)
        # each block's lines appear in their own order
        for w in want:
            it = iter(run)
            if not all(any(x == y for y in it) for x in w):
                raise Violation("line-order-" + field, f"{fname}: the lines of one block are not in their own order in {run} (block lines {w})", rep)
    out_base.extend(got[gi:])
    d = compare_text("\n".join(base), "\n".join(out_base), ren)
    if d:
        raise Violation("outside-regions", f"{fname}: apart from the injected lines the file differs from the one rendered without blocks: {d}", rep)


def check(c, run_cpp=False):
    backend, blocks = c["backend"], c["blocks"]
    q = build_query(backend, blocks)
    rep = {"backend": backend, "blocks": blocks, "expect": c["expect"], "query": q}
    try:
        pkg = translate(q, backend)
    except Exception as e:
        if c["expect"] and type(e).__name__ == c["expect"]:
            return "raised-as-expected"
        if c["expect"]:
            raise Violation("wrong-exception", f"expected {c['expect']} but {type(e).__name__}: {str(e)[:120]}", rep)
        raise Violation("rejected", f"valid blocks were rejected: {type(e).__name__}: {str(e)[:160]}", rep)
    if c["expect"]:
        raise Violation("missing-error-" + c["mode"], f"{c['mode']} block set was accepted", rep)
    basepkg = translate(build_query(backend, [b for b in blocks if b.get("metadata_type") != "inject_code"]), backend)
    ren = Renaming()
    regions = REGIONS_ATLAS if backend == "atlas" else REGIONS_CMS
    for fname in sorted(pkg.files):
        if fname == "package_CMakeLists.txt":
            continue
        check_file(fname, basepkg.files[fname], pkg.files[fname], regions, blocks, ren, rep)
    if backend == "atlas":
        def libs(txt):
            m = re.search(r"LINK_LIBRARIES AnaAlgorithmLib (.*?)\)\n", txt)
            return m.group(1).split() if m else None

        b0, b1 = libs(basepkg.files["package_CMakeLists.txt"]), libs(pkg.files["package_CMakeLists.txt"])
        want = [l for b in distinct_blocks(blocks) for l in b.get("link_libraries", [])]
        if b1 is None or b1[: len(b0)] != b0 or Counter(b1[len(b0):]) != Counter(want):
            raise Violation("region-link_libraries", f"LINK_LIBRARIES holds {b1}; expected the baseline's {b0} followed by {want}", rep)
        rest0 = re.sub(r"LINK_LIBRARIES AnaAlgorithmLib .*?\)\n", "", basepkg.files["package_CMakeLists.txt"], count=1)
        rest1 = re.sub(r"LINK_LIBRARIES AnaAlgorithmLib .*?\)\n", "", pkg.files["package_CMakeLists.txt"], count=1)
        if rest0 != rest1:
            raise Violation("outside-regions", "package_CMakeLists.txt differs outside the LINK_LIBRARIES list", rep)
    return "ok"


def check_cpp(c):
    """valid C++ family: compile, run, markers once each, constructor lines before initialize() lines"""
    backend, blocks = c["backend"], c["blocks"]
    q = build_query(backend, blocks)
    rep = {"backend": backend, "blocks": blocks, "expect": None, "query": q, "cpp": True}
    pkg = translate(q, backend)
    comp = cxx.compile_package(pkg.files, backend, cxx.std_model(backend))
    try:
        if not comp.ok:
            from vf.enginea import first_error_line

            raise Violation("cpp-compile", f"valid injected C++ does not compile in place: {first_error_line(comp.stderr)}", rep)
        import os
        from vf.model.events import write_events

        evf = os.path.join(comp.workdir, "ev.txt")
        write_events([], evf)
        out = cxx.run_job(comp.exe, evf, [])
        marks = [l for l in out["pre"] if l.startswith("MARK ")]
        want = []
        for k, b in enumerate(distinct_blocks(blocks)):
            idx = b["name"][3:]
            has_init = "instance_initialization" in b
            if "ctor_lines" in b:
                want.append(f"MARK ctor {idx} {1 if has_init else None}")
            if "initialize_lines" in b:
                want.append(f"MARK init {idx}")
        got_kinds = [" ".join(m.split()[:3]) for m in marks]
        want_kinds = [" ".join(w.split()[:3]) for w in want]
        if Counter(got_kinds) != Counter(want_kinds):
            raise Violation("cpp-markers", f"markers printed {marks}; expected once each of {want_kinds}", rep)
        if any(k.startswith("MARK init") for k in got_kinds[: sum(1 for k in got_kinds if k.startswith("MARK ctor"))]):
            raise Violation("cpp-order", f"an initialize() line ran before a constructor line: {marks}", rep)
        # values: ctor prints m_vfKb after +1 (initialised to 0 by the initialiser list when present)
        for m in marks:
            p = m.split()
            b = [b for b in blocks if b["name"] == "blk" + p[2]][0]
            if p[1] == "ctor" and "instance_initialization" in b and p[3] != "1":
                raise Violation("cpp-values", f"constructor line saw {p[3]} (initialiser list not applied first?): {marks}", rep)
            if p[1] == "init" and "instance_initialization" in b and "ctor_lines" in b and p[3] != "11":
                raise Violation("cpp-values", f"initialize() line saw {p[3]}, expected 11: {marks}", rep)
    finally:
        comp.cleanup()
    return "ok"


def is_nontrivial(c):
    d = distinct_blocks(c["blocks"])
    fields = {f for b in d for f in b if f not in ("metadata_type", "name") and b[f]}
    tmpl = any(tok in l for b in d for f in b if isinstance(b[f], list) for l in b[f] for tok in ("{{", "{%", "{#"))
    return (len(d) >= 2 and len(fields) >= 3) or tmpl or c["expect"] is not None


def worker(payload):
    seed, n, ncpp, deadline, backend = payload
    stats = Stats()

    def body(c):
        res = check(c)
        d = distinct_blocks(c["blocks"])
        labels = [f"backend={backend}", "mode=" + c["mode"], "result=" + res, f"distinct_blocks={len(d)}"] + sorted({"field=" + f for b in d for f in b if f not in ("metadata_type", "name")})
        stats.case(jdump([backend, c["blocks"]]), is_nontrivial(c), labels, {"backend": backend, "blocks": c["blocks"], "expect": c["expect"]})

    hyp_search(body, blocks_strategy(backend), max_examples=n, seed=seed, stats=stats, deadline=deadline, key_fn=lambda c: jdump([c["backend"], c["blocks"]]), shrink_budget=200)

    def body_cpp(blocks):
        c = {"backend": backend, "blocks": blocks, "expect": None, "mode": "cpp"}
        check(c)
        check_cpp(c)
        stats.case("cpp" + jdump([backend, blocks]), len(blocks) >= 2, [f"backend={backend}", "mode=cpp-family"], {"backend": backend, "blocks": blocks, "compiled_and_run": True})

    if ncpp:
        hyp_search(body_cpp, valid_code_blocks(backend, 3), max_examples=ncpp, seed=derive_seed(seed, "cpp"), stats=stats, deadline=deadline,
                   key_fn=lambda b: jdump(b), shrink_budget=30)
    return stats


def run(ctx: Ctx):
    ctx.rule = RULE
    ctx.assumptions = ["injected lines are single, non-blank lines (blank lines cannot be told from the templates' own blank lines)",
                       "link_libraries entries are single CMake arguments", "no order between different blocks is asserted (README)",
                       "on CMS only body_includes is asserted; other fields must leave the package unchanged"]
    cxx.std_model("atlas")
    total = ctx.n(1600, 40000)
    tcpp = ctx.n(48, 1600)
    shards = 16
    payloads = []
    for i in range(shards):
        be = "atlas" if i % 4 != 3 else BACKENDS[1 + (i // 4) % 2]
        payloads.append((derive_seed(ctx.seed, "C14", i), max(1, total // shards), max(1, tcpp // shards) if be == "atlas" else 0, ctx.deadline, be))
    for st_ in run_shards("vf.props.C14", "worker", payloads):
        ctx.stats.merge(st_)


def replay(case):
    c = {"backend": case["backend"], "blocks": case["blocks"], "expect": case.get("expect"), "mode": "replay"}
    try:
        check(c)
        if case.get("cpp"):
            check_cpp(c)
    except Violation as v:
        return [{"key": v.key, "what": v.what}]
    except Discard:
        return []
    return []
