"""C18 - constants in a query denote the same value in the generated code.

Generated: integers of all magnitudes, floats of every notation Python prints (subnormals, +-0.0,
huge / tiny exponents, inf, nan), booleans, and text (quotes, backslashes, control characters,
non-ASCII, %, braces, trigraph look-alikes) placed in every position a literal may occupy: output
column, arithmetic operand, comparison operand, method argument, bank name, attribute name, tree
name, column names; through both wire formats (Python AST and qastle text).
Oracle: translation raises (allowed only for literals C++ cannot express: non-finite floats, integers
outside int, strings with NUL), or the compiled job observes the identical value: numbers printed with
17 digits equal the Python value, strings arrive byte for byte (UTF-8) at the model method / store /
TTree."""
from __future__ import annotations

import ast
import copy
import math
import re

from hypothesis import strategies as st

from vf import cxx, enginea
import time

from vf.core import Ctx, Discard, HarnessError, Stats, Violation, derive_seed, hyp_search, jdump, run_shards
from vf.gen.query import dataset_text
from vf.model.events import Event, events_strategy
from vf.model.schema import standard_schema
from vf.ref import linq

BACKENDS = ("atlas", "cms_aod")
RULE = (
    "case = (back end, wire format python-AST | qastle round trip, a bank-name literal, a tree-name literal, 1-5 columns each holding one "
    "drawn literal in a drawn position: bare column, arithmetic operand, comparison operand, method argument (double/int/bool/string "
    "parameters; strings observed through length and byte probes), attribute name, and its column-name literal). non-trivial = some literal "
    "of the case is a string outside [A-Za-z0-9_. ], or a number outside +-2^31 or printed with an exponent; distinct by the literals + positions."
)

INT32 = (-(2**31), 2**31 - 1)


def lit_strategy():
    ints = st.one_of(st.integers(-10, 10), st.integers(INT32[0] + 1, INT32[1]), st.integers().filter(lambda v: v != -(2**31)), st.sampled_from([2**31 - 1, -(2**31) + 1, 2**31, -(2**31) - 1, 2**63, 10**30]),
                     # just beyond an int, within an unsigned int / just beyond that: a range test written in bits easily admits these
                     st.sampled_from([2**31, 2**31 + 1, 3000000000, 2**32 - 1, 2**32, 2**32 + 1, -(2**31) - 1, -3000000000, -(2**32) + 1, -(2**32)]))
    floats = st.one_of(
        st.floats(allow_nan=True, allow_infinity=True),
        st.floats(min_value=-1e6, max_value=1e6, allow_nan=False),
        st.sampled_from([0.0, -0.0, 1e22, 1e-7, 5e-324, 1.7976931348623157e308, 0.1, 1 / 3, 1e16, 123456789.123456789, 2.5e-5, float("inf"), float("-inf"), float("nan")]),
    )
    return ints, floats


def text_strategy():
    nasty = st.sampled_from(['"', "\\", "\n", "\t", "\r", "'", "%", "{", "}", "{{x}}", "{% y %}", "??=", "??/", "\\n", "\\x41", "\\1", "\\g<0>", "é", "π", "日本", "\x7f", "\x01",
                             " ", "a b", "/*", "*/", "//", "$", "`", "#", "\\\\", '\\"', " ", "😀", "\x00", "%s", "%d"])
    plain = st.text(alphabet="abcXYZ019_.", min_size=0, max_size=6)
    mixed = st.lists(st.one_of(nasty, plain, st.text(max_size=3)), min_size=1, max_size=4).map("".join)
    return st.one_of(plain, mixed, mixed, st.text(max_size=8))


def representable(v) -> bool:
    if isinstance(v, bool):
        return True
    if isinstance(v, int):
        return INT32[0] <= v <= INT32[1]
    if isinstance(v, float):
        return math.isfinite(v)
    if isinstance(v, str):
        return "\x00" not in v and not any(0xD800 <= ord(c) <= 0xDFFF for c in v)
    return False


def interesting(v) -> bool:
    if isinstance(v, bool):
        return False
    if isinstance(v, int):
        return not (INT32[0] <= v <= INT32[1])
    if isinstance(v, float):
        return "e" in repr(v) or not math.isfinite(v)
    return re.fullmatch(r"[A-Za-z0-9_. ]*", v) is None


def C(v):
    return ast.Constant(value=v)


def parse(t):
    return ast.parse(t, mode="eval").body


def subst(tree, mapping):
    class R(ast.NodeTransformer):
        def visit_Name(self, n):
            if n.id in mapping:
                return copy.deepcopy(mapping[n.id])
            return n

    return ast.fix_missing_locations(R().visit(copy.deepcopy(tree)))


@st.composite
def cases(draw, backend):
    sch = standard_schema(backend)
    ints, floats = lit_strategy()
    texts = text_strategy()
    acc = "Jets" if backend == "atlas" else "Muons"
    intm = "nTrk" if backend == "atlas" else "nSeg"
    boolm = "isGood" if backend == "atlas" else "isPFMuon"
    bank = draw(st.one_of(st.sampled_from(["AntiKt4", "muons"]), texts))
    tree = draw(st.one_of(st.sampled_from(["mytree"]), texts))
    ncols = draw(st.integers(1, 5))
    cols = []  # (expr ast, literal, position)
    col_kinds = {}  # index of a bare-literal column -> the C++ column type its kind requires
    attrs = []
    names = []
    for i in range(ncols):
        pos = draw(st.sampled_from(["col", "arith", "cmp", "arg", "arg", "str-arg", "str-arg", "attr", "negconst"] if backend == "atlas" else ["col", "arith", "cmp", "arg", "arg", "str-arg", "str-arg", "negconst"]))
        if pos == "negconst":
            # a negative number held in ONE Constant node (what a captured python variable becomes; the parser itself produces a unary minus),
            # next to the operators it must not fuse with
            kind = draw(st.sampled_from(["int", "float"]))
            v = draw(ints) if kind == "int" else draw(floats)
            if isinstance(v, float) and not math.isfinite(v):
                v = -1.5
            v = -abs(v) if v != 0 else (-3 if kind == "int" else -0.25)
            if kind == "int" and v <= -(2**31):
                v = -7
            x = f"j.{intm}() * 0" if kind == "int" else "j.pt() * 0"
            e = subst(parse(draw(st.sampled_from([f"({x} - L)", f"(0 - ({x} - L))", f"(L - {x})", f"(-L + {x})", f"({x} + L - L - L)", f"(({x} + 1) * L)"]))), {"L": C(v)})
            cols.append((e, v, "arith"))
        elif pos in ("col", "arith", "cmp", "arg"):
            kind = draw(st.sampled_from(["int", "float", "float", "bool"]))
            v = draw(ints) if kind == "int" else (draw(floats) if kind == "float" else draw(st.booleans()))
            prev = [c_[1] for c_ in cols if isinstance(c_[1], (int, float)) and c_[2] != "str-arg"]
            if prev and draw(st.integers(0, 2)) == 0:
                # the same VALUE in another KIND as an earlier literal of this query (2 / 2.0, 1 / True / 1.0, 0 / False / 0.0)
                p0 = draw(st.sampled_from(prev))
                try:
                    if kind == "int" and float(p0) == int(p0) and abs(p0) < 2**31:
                        v = int(p0)
                    elif kind == "float" and math.isfinite(float(p0)):
                        v = float(p0)
                    elif kind == "bool" and p0 in (0, 1):
                        v = bool(p0)
                except (OverflowError, ValueError):
                    pass
            neg_form = isinstance(v, (int, float)) and not isinstance(v, bool) and v < 0 and v != -(2**31) and draw(st.booleans())
            lit = ast.UnaryOp(op=ast.USub(), operand=C(-v)) if neg_form else C(v)
            if pos == "col":
                e = lit
                col_kinds[len(cols)] = {"int": "int", "float": "double", "bool": "bool"}[kind]
            elif pos == "arith":
                x = f"j.{intm}() * 0" if kind != "float" else "j.pt() * 0"
                # (the literal right after a binary minus / as its left operand: a negative constant must not fuse with the operator)
                e = subst(parse(draw(st.sampled_from([f"({x} + L)", f"({x} + L)", f"(0 - ({x} - L))", f"(L - {x})", f"(L * 1 + {x})"]))), {"L": lit})
            elif pos == "cmp":
                e = subst(parse("(j.pt() < L)" if draw(st.booleans()) else f"(L <= j.{intm}())"), {"L": lit})
                if kind == "bool":
                    e = subst(parse(f"(j.{boolm}() == L)"), {"L": lit})
            else:
                m = {"int": draw(st.sampled_from(["echoI", "echoD"])), "float": "echoD", "bool": "echoB"}[kind]
                if m == "echoI" and not representable(v):
                    m = "echoD"
                e = subst(parse(f"j.{m}(L)"), {"L": lit})
            cols.append((e, v, pos))
        elif pos == "str-arg":
            v = draw(texts)
            nb = len(v.encode("utf-8", "surrogatepass"))
            probes = sorted(set([0, 1, 2, nb - 1, nb] + [draw(st.integers(0, max(nb, 1))) for _ in range(2)]))
            e = ast.Tuple(elts=[subst(parse("j.strLen(L)"), {"L": C(v)})] + [subst(parse(f"j.strByte(L, {k})"), {"L": C(v)}) for k in probes if k >= 0], ctx=ast.Load())
            # flatten: several columns
            for k, el in enumerate(e.elts):
                cols.append((el, v, "str-arg"))
        else:
            v = draw(texts)
            attrs.append(v)
            cols.append((subst(parse("j.getAttributeFloat(L)"), {"L": C(v)}), v, "attr"))
    cols = cols[:12]
    names = []
    for i in range(len(cols)):
        n = draw(st.one_of(st.just(f"c{i}"), texts.map(lambda s, i=i: s + f"#{i}")))
        names.append(n)
    wire = draw(st.sampled_from(["ast", "qastle"]))
    ds = parse(dataset_text(sch))
    head = subst(parse(f"Select(SelectMany(DS, lambda e: e.{acc}(BANK)), lambda j: ROW)"),
                 {"DS": ds, "BANK": C(bank), "ROW": ast.Tuple(elts=[c[0] for c in cols], ctx=ast.Load())})
    q = ast.Call(func=ast.Name(id="ResultTTree", ctx=ast.Load()), args=[head, ast.List(elts=[C(n) for n in names], ctx=ast.Load()), C(tree), C("out.root")], keywords=[])
    if draw(st.integers(0, 3)) == 0 and len(set(names)) == len(names):
        # the other route to column names: the keys of a dictionary row (the tree then has the back end's default name)
        q = subst(parse(f"Select(SelectMany(DS, lambda e: e.{acc}(BANK)), lambda j: ROW)"),
                  {"DS": ds, "BANK": C(bank), "ROW": ast.Dict(keys=[C(n) for n in names], values=[c[0] for c in cols])})
        tree = None
    q = ast.fix_missing_locations(q)
    evs = draw(events_strategy(sch, [(acc, bank)], n_min=1, n_max=2, attr_names=[a for a in attrs if representable(a)], null_links=False))
    lits = [bank, tree if tree is not None else "default-tree-name"] + [c[1] for c in cols] + names
    col_kinds = {i: k for i, k in col_kinds.items() if i < len(cols)}
    return {"col_kinds": col_kinds, "backend": backend, "ast": q, "lits": lits, "positions": ["bank", "tree"] + [c[2] for c in cols] + ["colname" if tree is not None else "dict-key"] * len(names), "wire": wire, "evs": evs,
            "bank": bank, "tree": tree, "names": names, "acc": acc}


def to_wire(q, wire):
    if wire == "ast":
        return copy.deepcopy(q)  # the translator rewrites the tree in place
    import qastle

    try:
        return qastle.text_ast_to_python_ast(qastle.python_ast_to_text_ast(copy.deepcopy(q))).body[0].value
    except Exception as e:
        raise Discard("qastle cannot carry this literal: " + type(e).__name__)


def check(c):
    backend, evs = c["backend"], c["evs"]
    sch = standard_schema(backend)
    q = c["ast"]
    text = ast.unparse(q)
    neg_const = any(isinstance(n, ast.Constant) and isinstance(n.value, (int, float)) and not isinstance(n.value, bool) and str(n.value).startswith("-") for n in ast.walk(q))
    rep = {"neg_const": neg_const, "backend": backend, "query": text, "wire": c["wire"], "events": [e.to_json() for e in evs], "bank": c["bank"], "tree": c["tree"], "names": c["names"],
           "acc": c["acc"], "col_kinds": c.get("col_kinds", {}), "lit_reprs": [v.hex() if isinstance(v, float) else repr(v) for v in c["lits"]]}
    all_ok = all(representable(v) for v in c["lits"])
    r = enginea.execute(to_wire(q, c["wire"]), backend, evs, cxx.std_model(backend))
    if r.stage == "rejected":
        if all_ok:
            raise Violation("rejected-representable", f"every literal is representable yet translation raised {r.error}", rep)
        return "rejected"
    if r.stage != "ok":
        raise Violation("mis-rendered-" + r.stage, f"{r.stage}: {r.error}", rep)
    if not all_ok:
        # accepted although some literal is not representable: then the value must still be identical
        pass
    out = r.out
    bank_b = c["bank"].encode("utf-8", "surrogatepass")
    for e in out["events"]:
        for ty, b in e["reqs"]:
            if b.encode("utf-8", "surrogateescape") != bank_b:
                raise Violation("bank-name", f"bank requested as {b!r}, the query says {c['bank']!r}", rep)
    trees = set(out["booktrees"])
    if c["tree"] is not None and trees != {c["tree"]}:
        raise Violation("tree-name", f"tree booked as {sorted(trees)!r}, the query says {c['tree']!r}", rep)
    got = [b["name"] for b in out["book"]]
    if got != c["names"]:
        raise Violation("column-name", f"branches booked as {got!r}, the query says {c['names']!r}", rep)
    for i, want in (c.get("col_kinds") or {}).items():
        i = int(i)
        if i < len(out["book"]) and out["book"][i]["type"] != want:
            raise Violation("literal-kind", f"column {i} holds the bare literal {c['lits'][2 + i]!r} and must be a {want} column; it was booked as {out['book'][i]['type']}", rep)
    try:
        ref = linq.evaluate(q, sch, evs)
    except Exception as ex:
        raise Discard("reference cannot evaluate: " + type(ex).__name__)
    for k, (rf, ob) in enumerate(zip(ref, out["events"])):
        if "undefined" in rf["eager"]:
            continue
        m = enginea.compare_event(rf, ob)
        if m:
            raise Violation("value", f"event {k + 1}: {m}", rep)
        # exactness for floating literals in bare columns / arguments: compare bit-for-bit where Python has the value
        if "rows" in rf["eager"]:
            for erow, (t_, orow) in zip(rf["eager"]["rows"], ob["rows"]):
                for x, y in zip(linq.row_columns(erow), orow):
                    if isinstance(x, float) and isinstance(y, (int, float)) and math.isfinite(x) and float(y) != x and not (abs(float(y) - x) <= 1e-6 * abs(x) and abs(x) < 1e-30):
                        if not linq.values_equal(x, y, rel=1e-15):
                            raise Violation("value-inexact", f"event {k + 1}: literal-derived value {x!r} arrived as {y!r}", rep)
    return "ok"


def case_key(c):
    return jdump([ast.unparse(c["ast"]), c["wire"], [e.to_json() for e in c["evs"]]])


def worker(payload):
    seed, n, deadline, backend = payload
    stats = Stats()

    def body(c):
        res = check(c)
        nt = any(interesting(v) for v in c["lits"])
        labels = [f"backend={backend}", "wire=" + c["wire"], "outcome=" + res] + sorted({"pos=" + p for p in c["positions"]})
        for v in c["lits"]:
            if isinstance(v, str) and not representable(v):
                labels.append("lit=str-unrepresentable")
            elif isinstance(v, str) and interesting(v):
                labels.append("lit=str-special")
            elif isinstance(v, float) and not math.isfinite(v):
                labels.append("lit=float-nonfinite")
            elif isinstance(v, float) and interesting(v):
                labels.append("lit=float-exponent")
            elif isinstance(v, int) and not isinstance(v, bool) and interesting(v):
                labels.append("lit=int-beyond-int32")
        stats.case(jdump([backend, c["wire"], [repr(v) for v in c["lits"]], c["positions"]]), nt, sorted(set(labels)),
                   {"backend": backend, "wire": c["wire"], "outcome": res, "literals": [repr(v)[:40] for v in c["lits"]][:10], "positions": c["positions"][:10]})

    hyp_search(body, cases(backend), max_examples=n, seed=seed, stats=stats, deadline=deadline, key_fn=case_key, shrink_budget=50)
    return stats


def run(ctx: Ctx):
    ctx.rule = RULE
    ctx.assumptions = ["strings are compared as UTF-8 bytes observed by the model (method argument probes, store request log, TTree and branch names)",
                       "'cannot be represented' = non-finite float, integer outside 32-bit int, string with NUL or lone surrogate",
                       "qastle itself refusing a literal is outside the translator (discarded, counted)",
                       "-2**31 is not generated: in source and qastle form it is the negation of the literal 2147483648, which is not an int"]
    for be in BACKENDS:
        cxx.std_model(be)
    total = ctx.n(256, 6400)
    shards = 16
    payloads = [(derive_seed(ctx.seed, "C18", i), max(1, total // shards), ctx.deadline, BACKENDS[i % 2]) for i in range(shards)]
    for st_ in run_shards("vf.props.C18", "worker", payloads):
        ctx.stats.merge(st_)
    fuzz_stage(ctx)


def fuzz_stage(ctx: Ctx):
    """the coverage-guided campaign (vf/fuzz/c18_target.py): quick = the committed corpus + a literal grid replayed in process through the
    round-trip oracle; thorough = 16 atheris processes (libFuzzer, coverage feedback over func_adl_xAOD) started from that corpus"""
    import glob
    import json
    import os
    import shutil
    import subprocess
    import sys

    from vf.core import VERIF
    from vf.fuzz import c18_target as T

    st_ = ctx.stats
    import logging

    logging.disable(logging.CRITICAL)
    try:
        corpus = sorted(glob.glob(os.path.join(VERIF, "fuzz", "C18", "corpus", "*")))
        cases = []
        try:
            sys.path.insert(0, os.path.join(VERIF, ".deps"))
            import atheris  # noqa

            for f in corpus:
                cases.append(T.decode(open(f, "rb").read()))
            st_.extra["fuzz_corpus_replayed"] = len(corpus)
        except ImportError:
            st_.extra["fuzz_corpus_replayed"] = "atheris not importable (setup.sh installs it into .deps): corpus replay and campaign skipped"
        grid_s = ['a', '"', "\\", "\n", "?", "é", "日本", "😀", "a b", "??=", "\x7f", "\x01", "\\n", "%s", "{{x}}", "/*", "//", "\x00", 'x"y\\', "it's", "\x1f7", "\udc80"]
        grid_i = [0, 1, -1, -7, 2**31 - 1, -(2**31) + 1, 2**31, -(2**35)]
        grid_f = [0.0, -0.0, 1.5, -1.5, 1e22, 1e-7, 5e-324, -5e-324, 1.7976931348623157e308, 0.1, 2.0, -3.0, float("inf"), float("nan")]
        k = 0
        for be in T.BACKENDS:
            for pos in T.POSITIONS:
                vals = grid_s if pos in ("bank", "tree", "colname", "str-arg", "attr") else (grid_f if pos.startswith("float") else grid_i)
                for v in vals:
                    k += 1
                    cases.append({"backend": be, "wire": ("ast", "qastle")[k % 2], "position": pos, "lit": v})
        for c in cases:
            bad = T.roundtrip(c)
            st_.case(jdump(["fuzz", c["backend"], c["wire"], c["position"], repr(c["lit"])]), interesting(c["lit"]), ["stage=fuzz-replay", "pos=" + c["position"], "backend=" + c["backend"]],
                     {"stage": "fuzz-replay", "backend": c["backend"], "wire": c["wire"], "position": c["position"], "literal": repr(c["lit"])[:40]})
            if bad:
                st_.violation(bad[0], bad[1], T.case_to_json(c))
    finally:
        logging.disable(logging.NOTSET)
    if ctx.quick or not isinstance(st_.extra.get("fuzz_corpus_replayed"), int):
        return
    runs = ctx.n(0, 1500)
    work = os.path.join(VERIF, "out", "fuzz", "C18")
    shutil.rmtree(work, ignore_errors=True)
    procs = []
    env = dict(os.environ, PYTHONPATH=os.pathsep.join([os.environ.get("VERIF_REPO", "/repo"), VERIF, os.path.join(VERIF, ".deps")]), PYTHONHASHSEED="0")
    for i in range(16):
        d = os.path.join(work, f"s{i}")
        os.makedirs(os.path.join(d, "corpus"))
        for f in corpus:
            shutil.copy(f, os.path.join(d, "corpus"))
        e = dict(env, VERIF_FUZZ_STATS=os.path.join(d, "stats.json"), VERIF_FUZZ_OUT=os.path.join(d, "bad.json"))
        cmd = [sys.executable, "-m", "vf.fuzz.c18_target", f"-runs={runs}", f"-seed={derive_seed(ctx.seed, 'C18fuzz', i) % (2**31 - 1) + 1}", "-max_len=96", "-len_control=0",
               f"-artifact_prefix={d}/crash_", os.path.join(d, "corpus")]
        procs.append((d, subprocess.Popen(cmd, env=e, cwd=VERIF, stdout=subprocess.DEVNULL, stderr=open(os.path.join(d, "log"), "w"))))
    execs = nontriv = 0
    for d, p in procs:
        left = max(30.0, ctx.deadline - time.time())
        try:
            p.wait(timeout=left)
        except subprocess.TimeoutExpired:
            p.kill()
            st_.inconclusive = True
        try:
            j = json.load(open(os.path.join(d, "stats.json")))
            execs += j["n"]
            nontriv += j["nontrivial"]
        except Exception:
            pass
        if os.path.exists(os.path.join(d, "bad.json")):
            b = json.load(open(os.path.join(d, "bad.json")))
            st_.violation(b["key"], b["what"], b["case"])
        elif p.returncode not in (0, None, -9):
            tail = open(os.path.join(d, "log")).read()[-400:]
            raise HarnessError(f"fuzz process ended with status {p.returncode} without a finding: {tail}")
    st_.extra["fuzz_campaign"] = {"engine": "atheris (libFuzzer) with coverage feedback over func_adl_xAOD", "processes": 16, "runs_each": runs, "executions": execs,
                                  "executions_nontrivial_literal": nontriv, "corpus_seed_files": len(corpus)}


def replay(case):
    if case.get("fuzz"):
        from vf.fuzz import c18_target as T

        bad = T.roundtrip(T.case_from_json(case))
        return [{"key": bad[0], "what": bad[1]}] if bad else []
    q = ast.parse(case["query"], mode="eval").body
    if case.get("neg_const"):
        # the case held negative numbers as Constant nodes (what a captured python variable becomes); the parser gives a unary minus: fold it back
        class Fold(ast.NodeTransformer):
            def visit_UnaryOp(self, n):
                self.generic_visit(n)
                if isinstance(n.op, ast.USub) and isinstance(n.operand, ast.Constant) and isinstance(n.operand.value, (int, float)) and not isinstance(n.operand.value, bool):
                    return ast.copy_location(ast.Constant(-n.operand.value), n)
                return n

        q = ast.fix_missing_locations(Fold().visit(q))
    # literals that do not survive ast.unparse (nan / inf) cannot be replayed from text; they are rejected anyway
    lits = []
    for s in case["lit_reprs"]:
        try:
            lits.append(float.fromhex(s) if re.fullmatch(r"-?0x[0-9a-f.]+p[+-]?\d+|-?inf|nan", s) else ast.literal_eval(s))
        except Exception:
            lits.append(s)
    c = {"backend": case["backend"], "ast": q, "wire": case["wire"], "evs": [Event.from_json(j) for j in case["events"]], "bank": case["bank"], "tree": case["tree"],
         "names": case["names"], "acc": case["acc"], "lits": lits, "col_kinds": case.get("col_kinds", {})}
    try:
        check(c)
    except Violation as v:
        return [{"key": v.key, "what": v.what}]
    except Discard:
        return []
    return []
