"""C01 - the generated job computes exactly the rows and values the query denotes.

Generated: typed queries (vf/gen/query.py) over the standard schema of a drawn back end + events.
Oracle: translate -> compile against the model -> run; per event the outcome (rows / fault / failed
status) must equal the Python evaluation of the same query text (eager and lazy LINQ agree, or
either is accepted).  A grammar-produced query that is rejected or does not compile is a violation."""
from __future__ import annotations

from hypothesis import strategies as st

from vf import cxx, enginea
from vf.core import Ctx, Discard, Stats, Violation, derive_seed, hyp_search, jdump, run_shards
from vf.gen.query import Features, Query, queries
from vf.model.events import Event, events_strategy
from vf.model.schema import standard_schema
from vf.ref import linq
from vf.xlate import BACKENDS

RULE = (
    "case = (back end, generated typed query text over the standard schema, 3-6 generated events with collection sizes 0-4, "
    "negative/zero/tied values). non-trivial = query has >=2 operators besides the root AND the reference produced, on some event, a row "
    "holding a non-empty / non-zero value AND some event has an empty collection; distinct by query text."
)


def features() -> Features:
    # steer around recorded findings (known_findings.txt): '%' with floating operand, Range with computed bounds,
    # Max/Min with a 0 seed (only Max>=0 / Min<=0 shapes are generated), bare collection-valued method as column
    return Features()


def case_strategy(backend: str, feat: Features = None):
    sch = standard_schema(backend)

    @st.composite
    def cases(draw):
        q = draw(queries(sch, feat or features()))
        uses = q.uses or [(sch.colls[0].accessor, sch.colls[0].banks[0])]
        evs = draw(events_strategy(sch, uses))
        return q, evs

    return cases()


def replay_dict(q: Query, evs, extra=None):
    d = {"backend": q.backend, "query": q.text, "events": [e.to_json() for e in evs], "labels": sorted(q.labels)}
    if extra:
        d.update(extra)
    return d


def is_nontrivial(q: Query, evs, ref) -> bool:
    if q.nops < 2:
        return False
    has_empty = any(len(ids) == 0 for e in evs for _, _, ids in e.banks)
    def nz(v):
        if isinstance(v, (list, tuple)):
            return len(v) > 0
        if isinstance(v, dict):
            return any(nz(x) for x in v.values())
        return bool(v)
    has_val = any(any(nz(c) for row in r["eager"].get("rows", []) for c in linq.row_columns(row)) for r in ref)
    return has_empty and has_val


def check(text: str, backend: str, evs, labels=(), q: Query = None):
    """Raises Violation; returns the reference results."""
    sch = standard_schema(backend)
    md = cxx.std_model(backend)
    rep = {"backend": backend, "query": text, "events": [e.to_json() for e in evs], "labels": sorted(labels)}
    r = enginea.execute(text, backend, evs, md)
    if r.stage == "rejected":
        raise Violation("rejected-" + r.error.split(":")[0], f"grammar-produced query rejected: {r.error}", rep)
    if r.stage == "compile":
        raise Violation("compile", f"package does not compile: {r.error}", rep)
    if r.stage == "crash":
        raise Violation("crash", f"job crashed: {r.error}", rep)
    ref = linq.evaluate(text, sch, evs)
    if len(ref) != len(r.out["events"]):
        raise Violation("events-not-processed", f"the job processed {len(r.out['events'])} of the {len(ref)} input events (limit in the rendered job configuration: "
                        f"{enginea.job_event_limit(r.pkg.files)})", rep)
    for k, (rf, ob) in enumerate(zip(ref, r.out["events"])):
        m = enginea.compare_event(rf, ob)
        if m:
            raise Violation("mismatch", f"event {k + 1}: {m}", rep)
    return ref


def case_key(case):
    q, evs = case
    return jdump([q.text, [e.to_json() for e in evs]])


def worker(payload):
    seed, n, deadline, backend = payload
    stats = Stats()

    def body(case):
        q, evs = case
        for k, v in q.excluded.items():
            stats.excluded[k] += v
        ref = check(q.text, backend, evs, q.labels, q)
        amb = any(not r["agree"] for r in ref)
        und = any("undefined" in r["eager"] for r in ref)
        labels = sorted(q.labels) + [f"backend={backend}"] + (["ambiguous-lazy-eager"] if amb else []) + (["some-event-undefined"] if und else [])
        if any("fault" in r["eager"] for r in ref):
            labels.append("some-event-faults")
        stats.case(q.text, (not amb) and is_nontrivial(q, evs, ref), labels, {"backend": backend, "query": q.text[-500:], "n_events": len(evs)})

    hyp_search(body, case_strategy(backend), max_examples=n, seed=seed, stats=stats, deadline=deadline, key_fn=case_key, shrink_budget=60)

    # a focused batch of its own (own seed, so the main search draws what it always drew): productions the weighted grammar reaches only now and
    # then - aggregates / First over three-loop flattenings, two-argument methods - taken whenever the query at hand allows them
    import dataclasses

    hyp_search(body, case_strategy(backend, dataclasses.replace(features(), focus=("flat3", "mix"))), max_examples=max(1, n // 4), seed=derive_seed(seed, "focus"),
               stats=stats, deadline=deadline, key_fn=case_key, shrink_budget=60)

    # one long job per shard: every input event is processed, however many there are
    from vf.gen.query import dataset_text
    from vf.model.events import events_strategy

    sch = standard_schema(backend)
    col = [c for c in sch.colls if not c.singleton][0]
    long_text = f"Select({dataset_text(sch)}, lambda e: e.{col.accessor}({col.banks[0]!r}).Count())"

    def long_body(evs):
        ref = check(long_text, backend, evs, {"long-job"})
        stats.case(jdump(["long-job", backend, [e.to_json() for e in evs]]), len({jdump(r["eager"]) for r in ref}) >= 2, ["long-job", f"backend={backend}"],
                   {"backend": backend, "query": long_text[-80:], "n_events": len(evs)})

    hyp_search(long_body, events_strategy(sch, [(col.accessor, col.banks[0])], n_min=24, n_max=40), max_examples=1, seed=derive_seed(seed, "long"), stats=stats, deadline=deadline,
               shrink=False, max_rounds=1)
    return stats


def run(ctx: Ctx):
    ctx.rule = RULE
    ctx.assumptions = [
        "the C++ model of the experiment frameworks (vf/model) stands in for the real ATLAS/CMS releases",
        "float columns compared with relative tolerance 1e-6 (inputs are dyadic rationals)",
        "where eager and lazy LINQ evaluation disagree either outcome is accepted",
    ]
    for be in BACKENDS:
        cxx.std_model(be)
    total = ctx.n(640, 6400)
    shards = 16
    payloads = []
    for i in range(shards):
        be = BACKENDS[i % 3]
        payloads.append((derive_seed(ctx.seed, "C01", i), max(1, total // shards), ctx.deadline, be))
    for st_ in run_shards("vf.props.C01", "worker", payloads):
        ctx.stats.merge(st_)


def replay(case):
    evs = [Event.from_json(j) for j in case["events"]]
    try:
        check(case["query"], case["backend"], evs, case.get("labels", ()))
    except Violation as v:
        return [{"key": v.key, "what": v.what}]
    return []
