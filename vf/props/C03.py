"""C03 - output tree schema and returned descriptor match the query's final shape.

Generated: every terminal form (bare value, tuple, list, dict, explicit ResultTTree with any names /
tree / file) x column kinds (int, double, float, bool, 1-D, 2-D) x names (identifier-like and
arbitrary printable), per-event and per-object rows, all back ends; label-count mismatches.
Oracle: (a) the (branch name, C++ type) list the job books == the list derived from the query text
(names by the documented rules; types from the expression kinds as the property states them);
(b) every branch has its own storage and the rows read through it equal the reference values;
(c) descriptor tree name == the tree the job books and fills; descriptor file name == the file the
rendered runner.sh delivers; (d) a column/label count mismatch raises."""
from __future__ import annotations

import re

from hypothesis import strategies as st

from vf import cxx, enginea
from vf.core import Ctx, Discard, Stats, Violation, derive_seed, hyp_search, jdump, run_shards
from vf.gen.query import Features, QGen, TEvt, TNum, TObj, TSeq, dataset_text
from vf.model.events import Event, events_strategy
from vf.model.schema import standard_schema
from vf.ref import linq
from vf.xlate import BACKENDS

RULE = (
    "case = (back end, row level event/object, 1-4 generated columns of kinds int/double/float/bool/1-D/2-D, terminal form bare/tuple/list/"
    "dict/explicit ResultTTree, names identifier-like or arbitrary printable (no quote/backslash: C18), tree and file names; 1/6 of explicit "
    "forms carry a wrong number of labels and must raise). non-trivial = >=2 columns of different kinds, or an explicit name list; "
    "distinct by (back end, names, kinds, form)."
)

NAME_POOL = ["pt", "jet_pt", "JetPt", "n", "x1", "jet-pt", "jet pt", "a.b", "2nd", "pt/GeV", "weight[0]", "e+e-", "col", "value", "isGood?", "m_{jj}", "pT (GeV)", "_u", "__v", "l1;l2"]
TREES = ["mytree", "analysis", "t1", "Events", "my_tree_2", "nominal ", " loose", "run  2", "jets\tcalibrated", "a b"]
FILES = ["out.root", "ANALYSIS.root", "junk.root", "x"]


def type_string(t) -> set:
    """acceptable C++ type strings (as logged by the stand-in TTree::Branch<T>) for a column type"""
    if isinstance(t, TNum):
        return {"int": {"int"}, "bool": {"bool"}, "float": {"float", "double"}, "double": {"double"}}[t.kind]
    if isinstance(t, TSeq):
        return {f"vector<{x}>" for x in type_string(t.elem)}
    raise ValueError(t)


def kind_label(t):
    if isinstance(t, TNum):
        return t.kind
    return "seq<" + kind_label(t.elem) + ">"


@st.composite
def cases(draw, backend):
    sch = standard_schema(backend)
    feat = Features(first=False, index=False, explicit_ttree=False)
    g = QGen(draw, sch, feat)
    fuel = draw(st.integers(1, 2))
    level = draw(st.sampled_from(["event", "event", "object", "chained"]))
    ncols = draw(st.sampled_from([1, 2, 2, 3, 4]))
    # one case in eight is a column/label count mismatch (must be refused): half of them over a bare value, half over a tuple / list
    mismatch = draw(st.sampled_from([None] * 7 + ["draw"]))
    if mismatch:
        mismatch = draw(st.sampled_from(["bare", "row"]))
        if mismatch == "bare":
            ncols = 1
            level = "event" if level == "chained" else level
    src = dataset_text(sch)
    chained_cols = None
    if level == "chained":
        # a value carried through a chained Select whose second lambda uses its bare argument in several columns
        os_ = g.objseq([("e", TEvt())], 0)
        inner, kind = g.num([("j", TObj(os_[1]))], 1)
        v = "v"
        scope = [(v, TNum(kind))]
        ncols = max(ncols, 2)
        from vf.gen.query import wider as _wider
        pool = [(v, TNum(kind)), (v, TNum(kind)), (f"({v} * 2)", TNum(_wider(kind, "int"))), (f"({v} > 1)", TNum("bool")), (f"({v} / 2)", TNum("double"))]
        chained_cols = [draw(st.sampled_from(pool)) for _ in range(ncols)]
        chained_cols[0] = (v, TNum(kind))
        chained_cols[-1] = (v, TNum(kind))
        head = lambda body: f"Select(Select(SelectMany({src}, lambda e: {os_[0]}), lambda j: {inner}), lambda {v}: {body})"
    elif level == "event":
        v = "e"
        scope = [(v, TEvt())]
        head = lambda body: f"Select({src}, lambda {v}: {body})"
    else:
        os_ = g.objseq([("e", TEvt())], 0)
        v = "j"
        scope = [(v, TObj(os_[1]))]
        head = lambda body: f"Select(SelectMany({src}, lambda e: {os_[0]}), lambda {v}: {body})"
    cols = chained_cols if chained_cols is not None else [g.column(scope, fuel) for _ in range(ncols)]
    form = draw(st.sampled_from(["bare", "tuple", "list", "dict", "explicit", "explicit", "explicit1"]))
    if mismatch:
        form = "explicit1" if mismatch == "bare" else "explicit"
    if form in ("bare", "explicit1") and ncols != 1:
        form = "tuple" if form == "bare" else "explicit"
    names = draw(st.lists(st.sampled_from(NAME_POOL), min_size=ncols, max_size=ncols, unique=True))
    tree = None
    expect_error = False
    if form == "bare":
        text = head(cols[0][0])
        exp_names = ["col1"]
    elif form == "tuple":
        text = head("(" + ", ".join(c[0] for c in cols) + ("," if ncols == 1 else "") + ")")
        exp_names = [f"col{i}" for i in range(ncols)]
    elif form == "list":
        text = head("[" + ", ".join(c[0] for c in cols) + "]")
        exp_names = [f"col{i}" for i in range(ncols)]
    elif form == "dict":
        text = head("{" + ", ".join(f"{n!r}: {c[0]}" for n, c in zip(names, cols)) + "}")
        exp_names = names
    else:
        tree = draw(st.sampled_from(TREES))
        fn = draw(st.sampled_from(FILES))
        if form == "explicit1":
            inner = head(cols[0][0])
            labels = names[0] if draw(st.booleans()) else [names[0]]
            if mismatch or draw(st.integers(0, 9)) == 0:
                # a bare value is one column: any other number of labels is a mismatch
                expect_error = True
                labels = draw(st.sampled_from([[], [names[0], "extra"], [names[0], "extra", "more"]]))
        else:
            inner = head("(" + ", ".join(c[0] for c in cols) + ("," if ncols == 1 else "") + ")") if draw(st.booleans()) else head("[" + ", ".join(c[0] for c in cols) + "]")
            labels = list(names)
            if mismatch or draw(st.integers(0, 9)) == 0:
                expect_error = True
                if draw(st.booleans()) and len(labels) > 1:
                    labels = labels[:-1]
                else:
                    labels = labels + ["extra"]
        if isinstance(labels, list) and labels and draw(st.integers(0, 3)) == 0:
            labels = tuple(labels)  # a tuple literal of names is as good as a list
        text = f"ResultTTree({inner}, {labels!r}, {tree!r}, {fn!r})"
        exp_names = names
    uses = g.uses or [(sch.colls[0].accessor, sch.colls[0].banks[0])]
    evs = draw(events_strategy(sch, uses, n_min=2, n_max=3))
    return {"backend": backend, "text": text, "names": exp_names, "types": [c[1] for c in cols], "tree": tree, "form": form, "level": level,
            "expect_error": expect_error, "evs": evs, "labels": sorted(g.labels), "excluded": dict(g.excluded)}


def delivered_filename(runner_sh: str) -> set:
    """basenames of the file the rendered runner.sh delivers to the destination directory"""
    out = set()
    for m in re.finditer(r"([\w\-./$]*?)([A-Za-z0-9_\-]+\.root)", runner_sh):
        line_start = runner_sh.rfind("\n", 0, m.start()) + 1
        line = runner_sh[line_start : runner_sh.find("\n", m.end())]
        if line.strip().startswith("#"):
            continue
        if m.group(2) in ("temp-output.root",):
            continue
        out.add(m.group(2))
    return out


def check(c):
    backend, text, evs = c["backend"], c["text"], c["evs"]
    sch = standard_schema(backend)
    rep = {"backend": backend, "query": text, "events": [e.to_json() for e in evs], "names": c["names"], "types": [repr(t) for t in c["types"]],
           "expect_error": c["expect_error"], "tree": c["tree"]}
    r = enginea.execute(text, backend, evs, cxx.std_model(backend))
    if c["expect_error"]:
        if r.stage != "rejected":
            raise Violation("count-mismatch-accepted", "a column/label count mismatch was not rejected", rep)
        return
    if r.stage == "rejected":
        raise Discard("rejected: " + r.error.split(":")[0])
    if r.stage != "ok":
        raise Violation(r.stage, f"{r.stage}: {r.error}", rep)
    out = r.out
    book = out["book"]
    # (a) names and types, in order
    got_names = [b["name"] for b in book]
    if got_names != list(c["names"]):
        raise Violation("branch-names", f"booked branches {got_names} but the query names {list(c['names'])}", rep)
    for b, t in zip(book, c["types"]):
        ok = type_string(t)
        if b["type"] not in ok:
            raise Violation("branch-type", f"branch {b['name']!r} booked as {b['type']} but the expression is {kind_label(t)} (allowed {sorted(ok)})", rep)
    # (b) own storage
    addrs = [b["addr"] for b in book]
    if len(set(addrs)) != len(addrs):
        raise Violation("shared-storage", f"two branches share one address: {list(zip(got_names, addrs))}", rep)
    if any(b["when"] != "init" for b in book):
        raise Violation("late-booking", "branches booked while processing events", rep)
    ref = linq.evaluate(text, sch, evs)
    for k, (rf, ob) in enumerate(zip(ref, out["events"])):
        m = enginea.compare_event(rf, ob)
        if m:
            raise Violation("values", f"event {k + 1}: {m}", rep)
    # (c) descriptor
    pkg = r.pkg
    trees_booked = set(out["booktrees"]) | {b["tree"] for b in book}
    trees_filled = {t for e in out["events"] for t, _ in e["rows"]}
    if pkg.treename not in trees_booked or (trees_filled and trees_filled != {pkg.treename}) or len(trees_booked) != 1:
        raise Violation("descriptor-tree", f"descriptor says tree {pkg.treename!r}; the job books {sorted(trees_booked)} and fills {sorted(trees_filled)}", rep)
    if c["tree"] is not None and pkg.treename != c["tree"]:
        raise Violation("descriptor-tree", f"the query asks for tree {c['tree']!r}; descriptor says {pkg.treename!r}", rep)
    delivered = delivered_filename(pkg.files["runner.sh"])
    if {pkg.filename} != delivered:
        raise Violation("descriptor-file", f"descriptor says file {pkg.filename!r}; runner.sh delivers {sorted(delivered)}", rep)


def case_key(c):
    return jdump([c["text"], [e.to_json() for e in c["evs"]]])


def worker(payload):
    seed, n, deadline, backend = payload
    stats = Stats()

    def body(c):
        for k, v in c["excluded"].items():
            stats.excluded[k] += v
        check(c)
        kinds = [kind_label(t) for t in c["types"]]
        nt = len(set(kinds)) >= 2 or c["form"] in ("explicit", "explicit1", "dict")
        labels = [f"backend={backend}", "form=" + c["form"], "level=" + c["level"]] + ["kind=" + k for k in set(kinds)] + (["expect-error"] if c["expect_error"] else [])
        if any(not re.fullmatch(r"[A-Za-z_]\w*", n_) for n_ in c["names"]) and c["form"] in ("dict", "explicit", "explicit1"):
            labels.append("non-identifier-name")
        stats.case(jdump([backend, c["names"], kinds, c["form"], c["level"]]), nt, labels,
                   {"backend": backend, "query": c["text"][-350:], "expected_branches": list(zip(c["names"], kinds))})

    hyp_search(body, cases(backend), max_examples=n, seed=seed, stats=stats, deadline=deadline, key_fn=case_key, shrink_budget=60)
    return stats


def run(ctx: Ctx):
    ctx.rule = RULE
    ctx.assumptions = ["branch types are those instantiated in the stand-in TTree::Branch<T>", "the delivered file name is read from the rendered runner.sh text (C16 executes it)",
                       "declared float may be booked float or double; double only as double; int as int; bool as bool"]
    for be in BACKENDS:
        cxx.std_model(be)
    total = ctx.n(320, 4800)
    shards = 16
    payloads = [(derive_seed(ctx.seed, "C03", i), max(1, total // shards), ctx.deadline, BACKENDS[i % 3]) for i in range(shards)]
    for st_ in run_shards("vf.props.C03", "worker", payloads):
        ctx.stats.merge(st_)


def _parse_type(s):
    return eval(s, {"TNum": TNum, "TSeq": TSeq})


def replay(case):
    c = {"backend": case["backend"], "text": case["query"], "evs": [Event.from_json(j) for j in case["events"]], "names": case["names"],
         "types": [_parse_type(t) for t in case["types"]], "expect_error": case["expect_error"], "tree": case.get("tree")}
    try:
        check(c)
    except Violation as v:
        return [{"key": v.key, "what": v.what}]
    except Discard:
        return []
    return []
