"""C12 - every documented math function is accepted and computes its namesake.

The README's function list is the specification (exhaustive over names); Hypothesis draws the event
data the arguments are computed from.  Three uses per name: standalone column, inside arithmetic,
inside a comparison/conditional.  Oracle: accepted, compiles, <cmath> requested, value equals the C
library function of that name (libm through ctypes) on the same arguments."""
from __future__ import annotations

import math
from typing import Dict, List, Tuple

from vf import cxx, enginea
from vf.core import Ctx, Stats, Violation, derive_seed, hyp_search, jdump, run_shards
from vf.gen.query import dataset_text
from vf.model.events import Event, events_strategy
from vf.model.schema import standard_schema
from vf.ref import linq

BACKENDS = ("atlas", "cms_aod")
RULE = (
    "cells = every function name of the README's Math list (+ builtin abs, pow) x 10 uses (standalone column, with an argument taken from First(), on float-typed arguments standalone and inside arithmetic, inside +*/ arithmetic, inside an inner lambda under Sum, as the argument of other functions, with a literal in each argument position, "
    "inside a comparison + conditional, on integer-typed arguments standalone and inside arithmetic) + calls whose arguments are all number literals (drawn: quarters, ints, the ties x.5, standalone and inside arithmetic) + each name alone in a query of its own (include check), enumerated completely in every run on two back ends; arguments are computed from Hypothesis-drawn "
    "event data inside each function's domain. non-trivial = a (cell, drawn values) pair with a row on which the namesake differs from every "
    "other listed function of the same arity (so a table row mapped to a sibling is visible); distinct by (cell, values)."
)

X, Y, N = "j.pt()", "j.eta()", "j.NINT()"
# name -> (argument texts, arity)
ANY1 = ["sin", "cos", "tan", "atan", "sinh", "cosh", "tanh", "asinh", "exp", "exp2", "expm1", "cbrt", "erf", "erfc", "ceil", "floor",
        "trunc", "round", "rint", "nearbyint", "fabs", "abs"]
SPEC: Dict[str, List[str]] = {n: [X] for n in ANY1}
SPEC.update({
    "acos": [f"({X} / 64.0)"], "asin": [f"({X} / 64.0)"], "atanh": [f"({X} / 65.0)"], "acosh": [f"(fabs({X}) + 1)"],
    "log": [f"(fabs({X}) + 0.5)"], "ln": [f"(fabs({X}) + 0.5)"], "log10": [f"(fabs({X}) + 0.5)"], "log2": [f"(fabs({X}) + 0.5)"],
    "log1p": [f"fabs({X})"], "sqrt": [f"fabs({X})"], "tgamma": [f"(fabs({X}) / 8 + 0.5)"], "lgamma": [f"(fabs({X}) / 8 + 0.5)"],
    "ilogb": [f"(fabs({X}) + 0.25)"],
    "ldexp": [X, N], "scalbn": [X, N], "scalbln": [X, N],
    "atan2": [Y, X], "pow": [f"(fabs({X}) + 0.5)", f"({Y} / 16)"], "hypot": [X, Y], "fmod": [X, f"(fabs({Y}) + 0.5)"],
    "remainder": [X, f"(fabs({Y}) + 0.5)"], "copysign": [X, Y], "nextafter": [X, Y], "nexttoward": [X, Y], "fdim": [X, Y], "fmax": [X, Y],
    "fmin": [X, Y], "fma": [X, Y, "j.phi()"],
    "nan": ["''"],
})
# the same functions on integer-typed arguments (an int method, int literals, int arithmetic): every function is defined on them
NN1 = f"({N} * {N} + 1)"
INTSPEC: Dict[str, List[str]] = {n: [N] for n in ANY1}
INTSPEC.update({
    "acos": ["0"], "asin": ["1"], "atanh": ["0"], "acosh": [NN1], "log": [NN1], "ln": [NN1], "log10": [NN1], "log2": [NN1],
    "log1p": [f"({N} * {N})"], "sqrt": [f"({N} * {N} + 2)"], "tgamma": [NN1], "lgamma": [NN1], "ilogb": [NN1],
    "ldexp": [N, "3"], "scalbn": [N, "3"], "scalbln": [N, "3"], "atan2": [N, "3"], "pow": ["2", N], "hypot": [N, "4"], "fmod": [N, "3"],
    "remainder": [N, "4"], "copysign": [N, f"({N} - 2)"], "nextafter": [N, "100"], "nexttoward": [N, "100"], "fdim": [N, "3"],
    "fmax": [N, "3"], "fmin": [N, "3"], "fma": [N, "2", N], "abs": [f"({N} - 3)"],
})
# (abs(int) inside a division was the recorded finding abs-int-division until the /repo fix; the cell is generated now)
INT_ARITH_EXCLUDED = set()  # (abs(int) inside a division was a recorded finding until /repo fix: abs of an int is typed int)
KNOWN_UNCALLABLE = {"remquo": "documented, but std::remquo needs an int* third argument that no query can supply"}
README_LIST = ["sin", "cos", "tan", "acos", "asin", "atan", "atan2", "sinh", "cosh", "tanh", "asinh", "acosh", "atanh", "exp", "ldexp", "log",
               "ln", "log10", "exp2", "expm1", "ilogb", "log1p", "log2", "scalbn", "scalbln", "pow", "sqrt", "cbrt", "hypot", "erf", "erfc",
               "tgamma", "lgamma", "ceil", "floor", "fmod", "trunc", "round", "rint", "nearbyint", "remainder", "remquo", "copysign", "nan",
               "nextafter", "nexttoward", "fdim", "fmax", "fmin", "fabs", "abs", "fma"]
assert set(README_LIST) == set(SPEC) | set(KNOWN_UNCALLABLE), set(README_LIST) ^ (set(SPEC) | set(KNOWN_UNCALLABLE))


def int_method(backend):
    return "j.nTrk()" if backend == "atlas" else "j.nSeg()"


def build_cells(backend):
    cells = []
    for name in README_LIST:
        if name not in SPEC:
            continue
        args = ", ".join(a.replace("j.NINT()", int_method(backend)) for a in SPEC[name])
        call = f"{name}({args})"
        cells.append((f"{name}:plain", call, name))
        if name != "nan":
            cells.append((f"{name}:arith", f"(({call} * 2 + 1) / 4 - {call})", name))
            cells.append((f"{name}:cond", f"({call} if ({call} > 0.5) else (0 - 1))", name))
        if name != "nan":
            vecm = "weights" if backend == "atlas" else "chi2s"
            # inside an inner lambda under an aggregate; and as the argument of other functions
            cells.append((f"{name}:inlambda", f"j.{vecm}().Select(lambda w: {call} + w).Sum()", name))
            cells.append((f"{name}:wrapped", f"(fabs({call}) + sqrt(fabs({call})) - {call})", name))
        if name in ("sin", "atan", "cbrt", "fabs", "abs", "tanh", "erf", "atan2", "hypot", "fmax", "copysign"):
            # an argument taken from First(): its coding leaves the translator inside the loop (events give every vector an element)
            fa = f"j.{'weights' if backend == 'atlas' else 'chi2s'}().First()"
            cells.append((f"{name}:floatfirstarg", f"{name}({fa})" if len(SPEC[name]) == 1 else f"{name}({int_method(backend)}, {fa})", name))
        if len(SPEC[name]) >= 2:
            # a literal in each argument position in turn (the other arguments stay computed)
            base_args = [a.replace("j.NINT()", int_method(backend)) for a in SPEC[name]]
            for pos in range(len(base_args)):
                lit = "3" if (name in ("ldexp", "scalbn", "scalbln") and pos == 1) else ("10.0" if pos == 0 else "1.5")
                la = list(base_args)
                la[pos] = lit
                cells.append((f"{name}:lit{pos}", f"{name}({', '.join(la)})", name))
        if name not in ("nan", "nextafter", "nexttoward"):  # (the neighbour of a number is by definition a matter of the argument's precision)
            # float-typed arguments (a method declared `float`, the elements of a vector<float>): the column is a double and holds the
            # namesake of the argument's value - not the single-precision overload's rounding of it
            if backend == "atlas":
                fargs = ", ".join(a.replace("j.NINT()", int_method(backend)).replace(X, "j.emf()") for a in SPEC[name])
                cells.append((f"{name}:float", f"{name}({fargs})", name))
                cells.append((f"{name}:floatarith", f"(({name}({fargs}) * 2) / 4)", name))  # (no sum: a cancellation would magnify the single-precision rounding)
            else:
                fargs = ", ".join(a.replace("j.NINT()", int_method(backend)).replace(X, "w") for a in SPEC[name])
                cells.append((f"{name}:float", f"j.chi2s().Select(lambda w: {name}({fargs}))", name))
        if name in INTSPEC:
            icall = f"{name}({', '.join(a.replace('j.NINT()', int_method(backend)) for a in INTSPEC[name])})"
            cells.append((f"{name}:int", icall, name))
            if name not in INT_ARITH_EXCLUDED:
                cells.append((f"{name}:intarith", f"(({icall} * 2 + 1) / 4 - {icall} * 3)", name))
    return cells


def collection(backend):
    return ("Jets", "AntiKt4") if backend == "atlas" else ("Muons", "muons")


def make_query(cells, backend):
    sch = standard_schema(backend)
    acc, bank = collection(backend)
    body = "{" + ", ".join(f"'c{i}': {c[1]}" for i, c in enumerate(cells)) + "}"
    return f"Select(SelectMany({dataset_text(sch)}, lambda e: e.{acc}({bank!r})), lambda j: {body})"


# a float-typed argument selects the single-precision overload in C++ (std::sin(float) is sinf): the value is the namesake's to single
# precision (stated tolerance: 1e-6 relative, ~8 ulp of a float); double / int arguments are compared at 1e-12
FLOAT_TOL = 1e-6


def close(a, b, tol=1e-12):
    if isinstance(a, (list, tuple)) or isinstance(b, (list, tuple)):
        return isinstance(a, (list, tuple)) and isinstance(b, (list, tuple)) and len(a) == len(b) and all(close(x, y, tol) for x, y in zip(a, b))
    try:
        a, b = float(a), float(b)
    except (TypeError, ValueError):
        return False
    if a != a or b != b:
        return a != a and b != b
    if a == b:
        return True
    if math.isinf(a) or math.isinf(b):
        return False
    if tol == FLOAT_TOL and abs(a) < 1.2e-38 and abs(b) < 1.2e-38:
        return True  # below the smallest normal single-precision number (erfc of a large float is 0)
    return abs(a - b) <= tol * max(abs(a), abs(b)) or abs(a - b) < 1e-300


def siblings_differ(name, cell_text, evs, backend, refvals):
    """is there a row where every other listed function of the same arity gives a different number?"""
    if name == "nan":
        return True
    arity = len(SPEC[name])
    sch = standard_schema(backend)
    others = [n for n in SPEC if n != name and len(SPEC[n]) == arity and n not in ("nan",) and not (name in ("log", "ln") and n in ("log", "ln"))
              and not ({name, n} <= {"fabs", "abs"}) and not ({name, n} <= {"nextafter", "nexttoward"}) and not ({name, n} <= {"scalbn", "scalbln", "ldexp"})
              and not ({name, n} <= {"rint", "nearbyint"})]
    # evaluate the plain call of every sibling on the same arguments through the reference runtime
    args = ", ".join(a.replace("j.NINT()", int_method(backend)) for a in SPEC[name])
    acc, bank = collection(backend)
    body = "(" + ", ".join(f"{o}({args})" for o in others) + ",)"
    q = f"Select(SelectMany({dataset_text(sch, with_types=False)}, lambda e: e.{acc}({bank!r})), lambda j: {body})"
    try:
        ref = linq.evaluate(q, sch, evs)
    except Exception:
        return False
    rows = []
    for r in ref:
        rows.extend(linq.row_columns(x) for x in r["eager"].get("rows", []))
    if len(rows) != len(refvals):
        return False
    for v, row in zip(refvals, rows):
        if all(not close(v, o) for o in row):
            return True
    return False


def run_cells(cells, evs, backend):
    sch = standard_schema(backend)
    q = make_query(cells, backend)
    r = enginea.execute(q, backend, evs, cxx.std_model(backend))
    if r.stage != "ok":
        if len(cells) == 1:
            return [(cells[0], f"{r.stage}: {r.error}", None)]
        out = []
        for c in cells:
            out.extend(run_cells([c], evs, backend))
        return out
    src = r.pkg.files.get("query.cxx") or r.pkg.files.get("Analyzer.cc")
    has_cmath = '#include "cmath"' in src or "#include <cmath>" in src
    import re

    if all(":alllit" in c[0] for c in cells) and not (set(re.findall(r"std::(\w+)\s*\(", src)) - {"runtime_error", "vector", "string", "make_pair", "pair"}):
        has_cmath = True  # calls on literals only, and the emitted event code calls no std:: function at all (folded): no header is needed
    ref = linq.evaluate(q, sch, evs)
    res = []
    for i, c in enumerate(cells):
        prob = None if has_cmath else "the package does not #include cmath although a math function is used"
        vals = []
        for rf, ob in zip(ref, r.out["events"]):
            e = rf["eager"]
            if "undefined" in e:
                continue
            if "rows" not in e or ob["fault"] is not None or ob["status_failure"]:
                prob = prob or f"unexpected outcome ref={list(e)[:1]} job fault={ob['fault']}"
                continue
            exp_rows = [linq.row_columns(x) for x in e["rows"]]
            obs_rows = [row for _, row in ob["rows"]]
            if len(exp_rows) != len(obs_rows):
                prob = prob or "row count mismatch"
                continue
            for a, b in zip(exp_rows, obs_rows):
                vals.append(a[i])
                if not close(a[i], b[i], FLOAT_TOL if ":float" in c[0] else 1e-12) and prob is None:
                    prob = f"{c[1]}: the C library's {c[2]} gives {a[i]!r}, the job gives {b[i]!r}"
        res.append((c, prob, vals))
    return res


def include_alone(backend, stats: Stats):
    """each function, used alone in a query of its own (translated one after the other in one process), pulls in <cmath>"""
    from vf.xlate import translate

    for cid, text, name in build_cells(backend):
        if not cid.endswith(":plain"):
            continue
        q = make_query([(cid, text, name)], backend)
        try:
            pkg = translate(q, backend)
        except Exception as e:
            stats.violation("fn-" + name, f"{cid}: rejected when used alone: {type(e).__name__}: {str(e)[:120]}", {"backend": backend, "cell": cid, "expr": text, "name": name, "events": []})
            continue
        src = pkg.files.get("query.cxx") or pkg.files.get("Analyzer.cc")
        ok = any(h in src for h in ('#include "cmath"', "#include <cmath>", '#include "math.h"', "#include <math.h>"))
        stats.case(jdump([backend, "include-alone", name]), True, ["use=include-alone", "backend=" + backend], {"backend": backend, "cell": cid + " alone", "cmath_included": ok})
        if not ok:
            stats.violation("include-" + name, f"{name} used alone in a query: the package does not #include cmath", {"backend": backend, "cell": cid, "expr": text, "name": name, "events": [], "include_alone": True})


# domains of all-literal calls: name -> one class per argument
_LIT_DOM = {"acos": ["unit"], "asin": ["unit"], "atanh": ["open-unit"], "acosh": ["ge1"], "log": ["pos"], "ln": ["pos"], "log10": ["pos"], "log2": ["pos"],
            "ilogb": ["pos"], "sqrt": ["nonneg"], "log1p": ["nonneg"], "tgamma": ["pos"], "lgamma": ["pos"], "pow": ["pos", "real"], "fmod": ["real", "nonzero"],
            "remainder": ["real", "nonzero"], "ldexp": ["real", "smallint"], "scalbn": ["real", "smallint"], "scalbln": ["real", "smallint"]}


def literal_cells_strategy():
    """8 calls whose arguments are ALL number literals (ints, quarters, the ties x.5 of the rounding functions, negative ones), standalone
    or inside arithmetic: a translator may treat such a call specially (fold it), and the value has to be the namesake's all the same"""
    from hypothesis import strategies as st

    quarters = st.integers(-34, 34).map(lambda k: k / 4.0)
    ties = st.sampled_from([0.5, 1.5, 2.5, 3.5, 4.5, -0.5, -1.5, -2.5, 6.5, 1e15 + 0.5])
    ints = st.integers(-6, 9)
    real = st.one_of(quarters, ties, ints)
    dom = {"real": real, "unit": st.integers(-4, 4).map(lambda k: k / 4.0), "open-unit": st.integers(-3, 3).map(lambda k: k / 4.0),
           "ge1": st.one_of(st.integers(4, 40).map(lambda k: k / 4.0), st.integers(1, 9)), "pos": st.one_of(st.integers(1, 40).map(lambda k: k / 4.0), st.integers(1, 9)),
           "nonneg": st.one_of(st.integers(0, 40).map(lambda k: k / 4.0), st.integers(0, 9)), "nonzero": real.filter(lambda v: v != 0), "smallint": st.integers(-3, 5)}
    names = [n for n in README_LIST if n in SPEC and n != "nan"] + ["round", "rint", "nearbyint", "ceil", "floor", "trunc", "fmod", "remainder"] * 3

    @st.composite
    def one(draw):
        name = draw(st.sampled_from(names))
        classes = _LIT_DOM.get(name, ["real"] * len(SPEC[name]))
        args = [repr(draw(dom[c])) for c in classes]
        call = f"{name}({', '.join(args)})"
        use = draw(st.sampled_from(["alllit", "alllit", "alllitarith"]))
        return (f"{name}:{use}", call if use == "alllit" else f"(({call} * 2 + 1) / 4)", name)

    return st.lists(one(), min_size=8, max_size=8)


def worker(payload):
    seed, backend, chunks, deadline, n_examples = payload
    stats = Stats()
    if chunks == "include-alone":
        include_alone(backend, stats)
        return stats
    sch = standard_schema(backend)
    def _nonempty_vectors(evs):
        for ev in evs:
            for o in ev.objs.values():
                for vv in o.vec.values():
                    if not vv:
                        vv.append(1.5)
        return evs

    evstrat = events_strategy(sch, [collection(backend)], n_min=2, n_max=3).map(_nonempty_vectors)
    if chunks == "all-literals":
        from hypothesis import strategies as st

        def lbody(pair):
            cells, evs = pair
            for c, prob, vals in run_cells(cells, evs, backend):
                stats.case(jdump([backend, c[0], c[1]]), bool(vals), ["fn=" + c[2], "use=" + c[0].split(":")[1], "backend=" + backend],
                           {"backend": backend, "cell": c[0], "expr": c[1], "libm_values": (vals or [])[:1]})
                if prob:
                    raise Violation("fn-" + c[2], f"{c[0]}: {prob}", {"backend": backend, "cell": c[0], "expr": c[1], "name": c[2], "events": [e.to_json() for e in evs]})

        hyp_search(lbody, st.tuples(literal_cells_strategy(), evstrat), max_examples=n_examples, seed=seed, stats=stats, deadline=deadline, shrink=False, max_rounds=1)
        return stats
    for ci, cells in enumerate(chunks):

        def body(evs, cells=cells):
            for c, prob, vals in run_cells(cells, evs, backend):
                nt = False
                if vals and c[0].endswith(":plain"):
                    nt = siblings_differ(c[2], c[1], evs, backend, vals)
                elif vals:
                    nt = len({repr(v) for v in vals}) >= 2
                stats.case(jdump([backend, c[0], vals]), nt, ["fn=" + c[2], "use=" + c[0].split(":")[1], "backend=" + backend],
                           {"backend": backend, "cell": c[0], "expr": c[1], "libm_values": (vals or [])[:5]})
                if prob:
                    raise Violation("fn-" + c[2], f"{c[0]}: {prob}", {"backend": backend, "cell": c[0], "expr": c[1], "name": c[2], "events": [e.to_json() for e in evs]})

        hyp_search(body, evstrat, max_examples=n_examples, seed=derive_seed(seed, ci), stats=stats, deadline=deadline, shrink=False, max_rounds=1)
    return stats


def run(ctx: Ctx):
    ctx.rule = RULE
    ctx.assumptions = ["the C library (libm via ctypes) is the meaning of 'the function of that name'", "double-typed and int-typed arguments; relative tolerance 1e-12",
                       "model of the frameworks (vf/model)"]
    payloads = []
    n_examples = ctx.n(3, 24)
    k = 0
    for be in BACKENDS:
        cxx.std_model(be)
        cells = build_cells(be)
        chunks = [cells[i : i + 8] for i in range(0, len(cells), 8)]
        nsh = 8
        for i in range(nsh):
            payloads.append((derive_seed(ctx.seed, "C12", k), be, chunks[i::nsh], ctx.deadline, n_examples))
            k += 1
    for be in BACKENDS:
        payloads.append((derive_seed(ctx.seed, "C12inc", be), be, "include-alone", ctx.deadline, 0))
    for be in BACKENDS:
        for i in range(3):
            payloads.append((derive_seed(ctx.seed, "C12lit", be, i), be, "all-literals", ctx.deadline, ctx.n(12, 200)))
    for st_ in run_shards("vf.props.C12", "worker", payloads):
        ctx.stats.merge(st_)
    ctx.stats.extra["names_in_readme_list"] = len(README_LIST)
    ctx.stats.extra["names_enumerated"] = len(SPEC)
    ctx.stats.extra["names_recorded_uncallable"] = sorted(KNOWN_UNCALLABLE)


def replay(case):
    evs = [Event.from_json(j) for j in case["events"]]
    out = []
    if case.get("include_alone") or not evs:
        st = Stats()
        include_alone(case["backend"], st)
        return [{"key": v["key"], "what": v["what"]} for v in st.violations if v["key"].endswith(case["name"])]
    for c, prob, vals in run_cells([(case["cell"], case["expr"], case["name"])], evs, case["backend"]):
        if prob:
            out.append({"key": "fn-" + c[2], "what": f"{c[0]}: {prob}"})
    return out
