"""C10 - declared method, collection-return and enum types are honoured exactly.

Generated: random schemas (2-4 classes; scalar methods of every declared type incl. tree_type and
enum returns; object links by value / * / **; collections by value or pointer of scalars / objects /
object pointers; deref_count 0-2; some methods left undeclared) whose C++ model is generated from the
SAME declarations that are sent to the translator as metadata; queries are chains of 1-4 calls over
them ending in scalars, loops and indexing, enum comparisons / arguments / outputs.
Oracle: the package compiles against the model (the compiler checks '.', '->', '(*x)->', element types,
at()), values equal the reference (every object has its own data, so the right member of the right
object was reached), column types are the declared / tree types, an undeclared method behaves as
double and logs a warning naming Type::method (and declared ones log none)."""
from __future__ import annotations

import os
import re
import shutil
import tempfile

from hypothesis import strategies as st

from vf import cxx, enginea
from vf.core import Ctx, Discard, Stats, Violation, derive_seed, hyp_search, jdump, run_shards
from vf.gen.query import Features, TNum, TSeq, queries
from vf.gen.schema_gen import random_schema
from vf.model.events import Event, events_strategy
from vf.model.schema import Schema
from vf.props.C03 import kind_label, type_string
from vf.ref import linq

BACKENDS = ("atlas", "cms_aod", "cms_miniaod")
RULE = (
    "case = (back end, random schema, generated query following object links up to 3 steps, 2-4 events). Each worker draws schemas with "
    "Hypothesis, builds the C++ model from the schema, and runs several generated queries against it. non-trivial = the query uses a chain of "
    ">=2 calls with total indirection >=2, or a collection of pointers / pointer to collection, or a method with deref_count > 0, or an enum; "
    "distinct by (schema, query)."
)


def features():
    return Features(follow_links=3, first=False, index=True, deltar=False, echo=True, plumbing=False, explicit_ttree=False, where_top=False)


def schema_key(s: Schema):
    return jdump([[c.name, [(m.name, m.kind, m.ctype, m.cls, m.ptr, m.elem_ptr, m.deref, m.declared, m.tree_type, m.enum) for m in c.methods]] for c in s.classes.values()])


def used_methods(schema: Schema, src: str):
    """methods that were actually rendered into the generated C++ (values nothing needs are never translated)"""
    out = []
    for c in schema.classes.values():
        for m in c.methods:
            if re.search(rf"(\.|->){re.escape(m.name)}\(", src):
                out.append((c, m))
    return out


def check(schema: Schema, model_dir: str, q_text: str, cols, evs, rep):
    backend = schema.backend
    r = enginea.execute(q_text, backend, evs, model_dir)
    if r.stage == "rejected":
        raise Violation("rejected", f"query over declared types rejected: {r.error}", rep)
    if r.stage == "compile":
        raise Violation("compile", f"generated member access / iteration does not fit the declared types: {r.error}", rep)
    if r.stage != "ok":
        raise Violation(r.stage, f"{r.stage}: {r.error}", rep)
    ref = linq.evaluate(q_text, schema, evs)
    for k, (rf, ob) in enumerate(zip(ref, r.out["events"])):
        m = enginea.compare_event(rf, ob)
        if m:
            raise Violation("value", f"event {k + 1}: {m}", rep)
    book = r.out["book"]
    if len(book) != len(cols):
        raise Violation("columns", f"{len(book)} branches booked for {len(cols)} columns", rep)
    for b, (name, t) in zip(book, cols):
        ok = type_string(t)
        if b["type"] not in ok:
            raise Violation("column-type", f"column {name} booked as {b['type']}, declared/tree type requires {sorted(ok)} ({kind_label(t)})", rep)
    used = used_methods(schema, r.pkg.files.get("query.cxx") or r.pkg.files.get("Analyzer.cc"))
    for c, m in used:
        pat = f"'{c.name}::{m.name}(...)'"
        n = sum(1 for w in r.pkg.warnings if pat in w)
        if m.kind != "echo" and not m.typed and n < 1:
            raise Violation("warning-missing", f"{c.name}::{m.name} is undeclared but no 'assuming double' warning was logged", rep)
        if m.typed and n > 0:
            raise Violation("warning-spurious", f"{c.name}::{m.name} is declared but a warning was logged for it", rep)
    return used


def is_nontrivial(schema, used, text):
    body = text[text.index("lambda"):]
    chain = max((len(re.findall(r"\.\w+\(\)", seg)) for seg in re.findall(r"(?:\w+)(?:\.\w+\(\))+", body)), default=0)
    indirect = sum((m.ptr if m.kind == "obj" else 0) + m.deref for _, m in used)
    special = any((m.kind == "objvec" and (m.elem_ptr or m.ptr)) or (m.kind == "vec" and m.ptr) or m.deref > 0 or m.enum for _, m in used)
    return (chain >= 2 and indirect >= 2) or special


def worker(payload):
    seed, n_schemas, n_queries, deadline, backend = payload
    stats = Stats()
    root = tempfile.mkdtemp(prefix="vf_c10_")
    try:
        def body(schema):
            key = schema_key(schema)
            model_dir = cxx.build_model(schema, pch=True, root=root)
            try:
                def qbody(case):
                    q, evs = case
                    rep = {"backend": backend, "schema": key, "query": q.text, "columns": [(n, repr(t)) for n, t in q.columns], "events": [e.to_json() for e in evs],
                           "schema_obj": schema_to_json(schema)}
                    used = check(schema, model_dir, q.text, q.columns, evs, rep)
                    labels = [f"backend={backend}"] + sorted({f"kind={m.kind}" + (f"-ptr{m.ptr}" if m.ptr else "") + ("-elemptr" if m.elem_ptr else "") + (f"-deref{m.deref}" if m.deref else "")
                                                             + ("-enum" if m.enum else "") + ("-tree_type" if m.tree_type else "") + ("" if m.typed or m.kind == "echo" else "-undeclared") for _, m in used})
                    stats.case(jdump([key, q.text]), is_nontrivial(schema, used, q.text), labels, {"backend": backend, "query": q.text[q.text.index("lambda"):][-300:],
                                                                                                  "methods_used": [f"{c.name}::{m.name}" for c, m in used][:8]})

                @st.composite
                def qcases(draw):
                    q = draw(queries(schema, features(), fuel_range=(1, 3)))
                    uses = q.uses or [("Things", "things")]
                    evs = draw(events_strategy(schema, uses, n_min=2, n_max=4, null_links=False))
                    return q, evs

                hyp_search(qbody, qcases(), max_examples=n_queries, seed=derive_seed(seed, key), stats=stats, deadline=deadline,
                           key_fn=lambda c: jdump([c[0].text, [e.to_json() for e in c[1]]]), shrink_budget=40, max_rounds=2)
            finally:
                shutil.rmtree(model_dir, ignore_errors=True)
            if stats.violations:
                # surface the first violation of this schema to the outer search (stops it: schemas are expensive)
                v = stats.violations[-1]
                raise _Stop()

        try:
            hyp_search(body, random_schema(backend), max_examples=n_schemas, seed=seed, stats=stats, deadline=deadline, shrink=False, max_rounds=1)
        except _Stop:
            pass
    finally:
        shutil.rmtree(root, ignore_errors=True)
    return stats


class _Stop(BaseException):
    pass


def schema_to_json(s: Schema):
    return {"backend": s.backend, "name": s.name,
            "classes": [{"name": c.name, "methods": [m.__dict__ for m in c.methods]} for c in s.classes.values()],
            "colls": [c.__dict__ for c in s.colls], "enums": [e.__dict__ for e in s.enums]}


def schema_from_json(j) -> Schema:
    from vf.model.schema import C, Coll, Enum, M

    classes = {}
    for c in j["classes"]:
        ms = []
        for m in c["methods"]:
            m = dict(m)
            m["args"] = tuple(m.get("args", ()))
            ms.append(M(**m))
        classes[c["name"]] = C(c["name"], ms)
    colls = []
    for c in j["colls"]:
        c = dict(c)
        for k in ("headers", "libs", "banks"):
            c[k] = tuple(c[k])
        colls.append(Coll(**c))
    enums = [Enum(e["ns"], e["name"], tuple(e["values"]), e.get("in_class")) for e in j["enums"]]
    return Schema(j["backend"], classes, colls, j["name"], enums)


# a declaration REPLACES what the translator knew before - also what a back end installs by default just before the query's metadata is processed
REDECLARED = [
    # (back end, accessor, bank, declaration, value text, expected C++ leaf type, python value of the column from the default bool)
    ("cms_aod", "Muons", "muons", {"metadata_type": "add_method_type_info", "type_string": "reco::Muon", "method_name": "isPFMuon", "return_type": "bool", "tree_type": "int"}, "m.isPFMuon()", "int"),
    ("cms_miniaod", "Muons", "slimmedMuons", {"metadata_type": "add_method_type_info", "type_string": "pat::Muon", "method_name": "isPFMuon", "return_type": "bool", "tree_type": "int"}, "m.isPFMuon()", "int"),
    ("cms_aod", "Muons", "muons", {"metadata_type": "add_method_type_info", "type_string": "reco::Muon", "method_name": "isPFIsolationValid", "return_type": "bool", "tree_type": "double"}, "m.isPFIsolationValid()", "double"),
]


def redeclared_defaults(stats: Stats):
    from vf.gen.query import dataset_text
    from vf.model.schema import standard_schema

    for be, acc, bank, md, val, leaf in REDECLARED:
        sch = standard_schema(be)
        text = f"Select(SelectMany(MetaData({dataset_text(sch)}, {md!r}), lambda e: e.{acc}({bank!r})), lambda m: {val})"
        # (the booked leaf type is what is looked at: one event with an empty collection is enough)
        evs = [Event.from_json({"id": 1, "objs": [], "banks": [[sch.coll(acc).container, bank, []]]})]
        r = enginea.execute(text, be, evs, cxx.std_model(be))
        rep = {"backend": be, "query": text, "redeclared": True}
        if r.stage != "ok":
            stats.violation("redeclared-default-" + r.stage, f"a query that re-declares a default method type ({md['method_name']}): {r.stage}: {r.error[:200]}", rep)
            continue
        got = r.out["book"][0]["type"]
        stats.case("redeclared:" + text[-120:], True, ["redeclared-default-method-type", f"backend={be}"], {"backend": be, "declaration": md, "leaf": got})
        if got != leaf:
            stats.violation("redeclared-default-ignored", f"{md['type_string']}::{md['method_name']} re-declared with tree_type {md['tree_type']}: the column is booked as {got}, not {leaf} "
                            "(the declaration was dropped in favour of the back end's default)", rep)


def run(ctx: Ctx):
    redeclared_defaults(ctx.stats)
    ctx.rule = RULE
    ctx.assumptions = ["the C++ model is generated from the same declarations that are sent as metadata (smart-pointer wrappers stand in for deref_count)",
                       "pointers to scalars and pointer depth > 1 on collections are not generated"]
    shards = 16
    n_schemas = ctx.n(2, 12)  # the first schema Hypothesis draws is its simplest (by construction a rich one); the others vary with the seed
    n_queries = ctx.n(6, 24)
    payloads = [(derive_seed(ctx.seed, "C10", i), n_schemas, n_queries, ctx.deadline, BACKENDS[i % 3]) for i in range(shards)]
    for st_ in run_shards("vf.props.C10", "worker", payloads):
        ctx.stats.merge(st_)


def replay(case):
    if case.get("redeclared"):
        s_ = Stats()
        redeclared_defaults(s_)
        return [{"key": v["key"], "what": v["what"]} for v in s_.violations]
    schema = schema_from_json(case["schema_obj"])
    root = tempfile.mkdtemp(prefix="vf_c10r_")
    try:
        md = cxx.build_model(schema, pch=False, root=root)
        cols = [(n, eval(t, {"TNum": TNum, "TSeq": TSeq})) for n, t in case["columns"]]
        try:
            check(schema, md, case["query"], cols, [Event.from_json(j) for j in case["events"]], {})
        except Violation as v:
            return [{"key": v.key, "what": v.what}]
        return []
    finally:
        shutil.rmtree(root, ignore_errors=True)
