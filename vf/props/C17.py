"""C17 - local docker execution runs the right image on the right files, or raises.

A stand-in python_on_whales (vf/stubs/pow) records the arguments of docker.run, snapshots the /scripts
mount and follows a drawn outcome plan (success; DockerException before output / after the k-th
chunk; success without a result file).  Queries go through the public path
(Dataset(files, image, tag, outdir).MetaData(...).Select("lambda ...").value()).  The first case of
every run also executes in a brand-new interpreter."""
from __future__ import annotations

import json
import os
import shutil
import subprocess
import sys
import tempfile
from pathlib import Path
from typing import Any, Dict, List

from hypothesis import strategies as st

from vf.core import VERIF, Ctx, Discard, HarnessError, Stats, Violation, derive_seed, hyp_search, jdump, run_shards

POW = os.path.join(VERIF, "vf", "stubs", "pow")

RULE = (
    "case = (dataset class of one of 3 back ends, 1-4 input files given as str / Path / list, in one or several directories, some missing, some symbolic links, some named relative to the working directory, "
    "or an empty list; image and tag strings; 0-2 docker metadata; output directory given or not; container outcome: success, "
    "DockerException before any output or after the k-th stdout/stderr chunk (chunks include bytes that are not UTF-8), success without a result file). non-trivial = >=2 files, or a "
    "metadata override, or a failing outcome, or an expected input error; distinct by case."
)

QUERY = {
    "atlas": "lambda e: e.EventInfo('EventInfo').runNumber()",
    "cms_aod": "lambda e: e.Muons('muons').Count()",
    "cms_miniaod": "lambda e: e.Muons('slimmedMuons').Count()",
}
CACHE = {"atlas": [("func_adl_atlas_xaod_calibration_cache", "/xaod_calibration_cache")], "cms_aod": [], "cms_miniaod": []}


def dataset_class(backend):
    if POW not in sys.path:
        sys.path.insert(0, POW)
    if backend == "atlas":
        from func_adl_xAOD.atlas.xaod.local_dataset import xAODDataset

        return xAODDataset
    if backend == "cms_aod":
        from func_adl_xAOD.cms.aod.local_dataset import CMSRun1AODDataset

        return CMSRun1AODDataset
    from func_adl_xAOD.cms.miniaod.local_dataset import CMSRun2miniAODDataset

    return CMSRun2miniAODDataset


@st.composite
def cases(draw):
    backend = draw(st.sampled_from(["atlas", "cms_aod", "cms_miniaod"]))
    nfiles = draw(st.sampled_from([0, 1, 1, 2, 3, 4]))
    names = draw(st.lists(st.sampled_from(["a.root", "b.root", "c.root", "file with space.root", "d.root", "é.root"]), min_size=nfiles, max_size=nfiles, unique=True))
    dirs = [0] * nfiles
    # links: every input file is a symbolic link, in one directory, to a file stored elsewhere (one or two storage directories)
    # relative: the files are named relative to the directory the caller works in ("data0/a.root", "./data0/a.root")
    # via-link: the files are named through a symbolic link to a directory elsewhere, followed by '..' (a purely textual clean-up of the
    # path would name another directory than the one the files are in)
    layout = draw(st.sampled_from(["same", "same", "same", "two-dirs", "missing", "links", "relative", "via-link"]))
    rel_prefix = draw(st.sampled_from(["", "./"])) if layout == "relative" else None
    link_targets = [draw(st.integers(0, 1)) for _ in range(nfiles)] if layout == "links" else None
    if layout == "two-dirs" and nfiles >= 2:
        dirs[draw(st.integers(1, nfiles - 1))] = 1
    missing = []
    if layout == "missing" and nfiles >= 1:
        missing = [draw(st.integers(0, nfiles - 1))]
    form = draw(st.sampled_from(["str", "path", "list-str", "list-path"])) if nfiles == 1 else draw(st.sampled_from(["list-str", "list-path", "list-mixed"]))
    image = draw(st.sampled_from(["atlas/analysisbase", "my/image", "registry:5000/img"]))
    tag = draw(st.sampled_from(["21.2.197", "latest", "v1"]))
    use_default_image = draw(st.booleans())
    md = draw(st.lists(st.sampled_from(["md/override:1", "other/img:2"]), min_size=0, max_size=2))
    outdir = draw(st.booleans())
    # the requested output directory may not exist yet (its parent does)
    outdir_missing = outdir and draw(st.integers(0, 4)) == 0
    outcome = draw(st.sampled_from(["success", "success", "fail-before", "fail-during", "no-result"]))
    chunks = draw(st.lists(st.tuples(st.sampled_from(["stdout", "stderr"]), st.sampled_from([b"line\n", b"", b"warn \xc3\xa9\n", b"x" * 50, b"Opening /data/caf\xe9.root 12 \xb5m\n", b"\xff\xfe"])), min_size=0, max_size=4))
    fail_after = draw(st.integers(0, 4))
    payload = draw(st.binary(min_size=1, max_size=20))
    # optionally a second query on the SAME dataset object, with its own metadata / outcome
    second = None
    if draw(st.integers(0, 2)) == 0:
        second = {"md": draw(st.lists(st.sampled_from(["md/second:9", "other/img:2"]), min_size=0, max_size=1)),
                  "outcome": draw(st.sampled_from(["success", "success", "fail-before"])), "payload": draw(st.binary(min_size=1, max_size=12)).decode("latin-1")}
    return {"via_link": layout == "via-link", "outdir_missing": outdir_missing, "rel_prefix": rel_prefix, "second": second, "backend": backend, "names": names, "dirs": dirs, "missing": missing, "link_targets": link_targets, "form": form, "image": image, "tag": tag, "default_image": use_default_image, "md": md,
            "outdir": outdir, "outcome": outcome, "chunks": [(k, d.decode("latin-1")) for k, d in chunks], "fail_after": fail_after, "payload": payload.decode("latin-1")}


def run_case(c: dict) -> dict:
    """Executes the case in THIS process; returns an observation record (no judgement)."""
    import python_on_whales as pow_

    cls = dataset_class(c["backend"])
    scratch = tempfile.mkdtemp(prefix="vf_c17_")
    old_tmp = os.environ.get("TMPDIR")
    tmproot = os.path.join(scratch, "tmp")
    os.makedirs(tmproot)
    os.environ["TMPDIR"] = tmproot
    tempfile.tempdir = None
    obs: Dict[str, Any] = {}
    old_cwd = os.getcwd()
    try:
        ddirs = [os.path.join(scratch, "data0"), os.path.join(scratch, "data1")]
        for d in ddirs:
            os.makedirs(d)
        paths = []
        for i, (n, d) in enumerate(zip(c["names"], c["dirs"])):
            p = os.path.join(ddirs[d], n)
            if c.get("link_targets"):
                store = os.path.join(scratch, f"store{c['link_targets'][i]}")
                os.makedirs(store, exist_ok=True)
                target = os.path.join(store, f"stored_{i}.root")
                open(target, "wb").write(b"data")
                os.symlink(target, p)
            elif i not in c["missing"]:
                open(p, "wb").write(b"data")
            paths.append(p)
        if c.get("via_link"):
            # data1/deep is a directory in ANOTHER data directory; data1 also holds decoy files of the same names with other content
            deep = os.path.join(ddirs[1], "deep")
            os.makedirs(deep)
            for n in c["names"]:
                open(os.path.join(ddirs[1], n), "wb").write(b"decoy")
            os.symlink(deep, os.path.join(scratch, "lnk"))
            # <scratch>/lnk/../<name> IS data1/<name> for the file system (lnk -> data1/deep), textually it looks like <scratch>/<name>
            paths = [os.path.join(scratch, "lnk", "..", os.path.basename(p)) for p in paths]
            obs["true_data_dir"] = ddirs[1]
        if c.get("rel_prefix") is not None:
            # the caller works in the scratch directory and names the files relative to it
            os.chdir(scratch)
            paths = [c["rel_prefix"] + os.path.relpath(p, scratch) for p in paths]
        form = c["form"]
        if form == "str":
            files: Any = paths[0]
        elif form == "path":
            files = Path(paths[0])
        elif form == "list-path":
            files = [Path(p) for p in paths]
        elif form == "list-mixed":
            files = [Path(p) if i % 2 else p for i, p in enumerate(paths)]
        else:
            files = list(paths)
        outd = os.path.join(scratch, "out")
        if not c.get("outdir_missing"):
            os.makedirs(outd)
        pow_.vf_calls.clear()
        pow_.vf_plan.update({"outcome": {"no-result": "no-result"}.get(c["outcome"], c["outcome"]), "chunks": [(k, d.encode("latin-1")) for k, d in c["chunks"]],
                             "fail_after": c["fail_after"], "payload": c["payload"].encode("latin-1")})
        obs["paths"] = paths
        obs["outdir"] = outd if c["outdir"] else tmproot
        try:
            kw = {} if c["default_image"] else {"docker_image": c["image"], "docker_tag": c["tag"]}
            ds = cls(files, output_directory=Path(outd) if c["outdir"] else None, **kw)
            obs["constructed"] = True
            obs["default_image_string"] = ds._docker_image if c["default_image"] else None
            q = ds
            for m in c["md"]:
                q = q.MetaData({"metadata_type": "docker", "image": m})
            before = set(os.listdir(tmproot))
            try:
                res = q.Select(QUERY[c["backend"]]).value()
                obs["result"] = [str(r) for r in res]
                obs["result_bytes"] = [open(r, "rb").read().decode("latin-1") if os.path.isfile(r) else None for r in res]
            finally:
                after = set(os.listdir(tmproot))
                obs["leftover_tmp"] = sorted(x for x in after - before if os.path.isdir(os.path.join(tmproot, x)))
                obs["calls_first"] = len(pow_.vf_calls)
                if c.get("second"):
                    # the same dataset object is used for another query
                    s2 = c["second"]
                    pow_.vf_plan.update({"outcome": s2["outcome"], "chunks": [("stdout", b"x")], "fail_after": 0, "payload": s2["payload"].encode("latin-1")})
                    q2 = ds
                    for m in s2["md"]:
                        q2 = q2.MetaData({"metadata_type": "docker", "image": m})
                    try:
                        r2 = q2.Select(QUERY[c["backend"]]).value()
                        obs["second_result_bytes"] = [open(r, "rb").read().decode("latin-1") for r in r2]
                    except BaseException as e2:
                        obs["second_exception"] = type(e2).__name__
        except BaseException as e:
            obs["exception"] = type(e).__name__
            obs["exception_msg"] = str(e)[:200]
            obs["is_docker_exception"] = isinstance(e, pow_.DockerException)
        obs["outdir_kind"] = "dir" if os.path.isdir(outd) else ("file" if os.path.exists(outd) else "absent")
        obs["calls"] = json.loads(json.dumps(pow_.vf_calls, default=str))
        obs["ddirs"] = ddirs
        return obs
    finally:
        os.chdir(old_cwd)
        if old_tmp is None:
            os.environ.pop("TMPDIR", None)
        else:
            os.environ["TMPDIR"] = old_tmp
        tempfile.tempdir = None
        shutil.rmtree(scratch, ignore_errors=True)


def judge(c: dict, obs: dict):
    rep = {"case": c}
    calls = obs["calls"]
    input_error = None
    if len(c["names"]) == 0:
        input_error = "empty"
    elif c["missing"]:
        input_error = "missing"
    elif len(set(c["dirs"])) > 1:
        input_error = "dirs"
    if input_error:
        if "exception" not in obs:
            raise Violation("bad-input-accepted-" + input_error, f"input error ({input_error}) but a result was returned: {obs.get('result')}", rep)
        if calls:
            raise Violation("container-started-despite-bad-input", f"docker.run was called although the file set is invalid ({input_error})", rep)
        return "input-error"
    if "constructed" not in obs:
        raise Violation("valid-input-rejected", f"constructing the dataset raised {obs.get('exception')}: {obs.get('exception_msg')}", rep)
    second_calls = calls[obs.get("calls_first", len(calls)):]
    calls = calls[: obs.get("calls_first", len(calls))]
    if c.get("second") and obs.get("calls_first") is not None:
        s2 = c["second"]
        if len(second_calls) != 1:
            raise Violation("second-query", f"the second query on the same dataset started {len(second_calls)} containers", rep)
        default2 = {"atlas": "atlas/analysisbase:21.2.197", "cms_aod": "cmsopendata/cmssw_5_3_32:conddb_20210705", "cms_miniaod": "cmsopendata/cmssw_7_6_7-slc6_amd64_gcc493:latest"}[c["backend"]]
        want2 = s2["md"][0] if s2["md"] else (default2 if c["default_image"] else f"{c['image']}:{c['tag']}")
        if second_calls[0]["image"] != want2:
            raise Violation("second-query-image", f"a second query on the same dataset ran image {second_calls[0]['image']!r}; expected {want2!r} (first query's metadata: {c['md']})", rep)
        if second_calls[0].get("filelist") != "".join(f"/data/{n}\n" for n in c["names"]):
            raise Violation("second-query-filelist", f"second query's filelist {second_calls[0].get('filelist')!r}", rep)
        if s2["outcome"] == "success" and obs.get("second_result_bytes") != [s2["payload"]] and not (c.get("outdir_missing") and "second_exception" in obs):
            raise Violation("second-query-result", f"second query returned {obs.get('second_result_bytes')!r} / {obs.get('second_exception')}; the container wrote {s2['payload']!r}", rep)
        if s2["outcome"] != "success" and "second_exception" not in obs:
            raise Violation("second-query-failure-swallowed", "the second query's container failed but a result was returned", rep)
    if len(calls) != 1:
        if "exception" in obs:
            raise Violation("no-container", f"{obs['exception']}: {obs['exception_msg']} before any container was started", rep)
        raise Violation("container-count", f"docker.run called {len(calls)} times", rep)
    call = calls[0]
    # image
    default = {"atlas": "atlas/analysisbase:21.2.197", "cms_aod": "cmsopendata/cmssw_5_3_32:conddb_20210705", "cms_miniaod": "cmsopendata/cmssw_7_6_7-slc6_amd64_gcc493:latest"}[c["backend"]]
    base_image = default if c["default_image"] else f"{c['image']}:{c['tag']}"
    allowed = set(c["md"]) if c["md"] else {base_image}
    if len(c["md"]) == 1:
        allowed = {c["md"][0]}
    if call["image"] not in allowed:
        raise Violation("wrong-image", f"container image {call['image']!r}; expected {sorted(allowed)} (metadata {c['md']}, dataset {base_image})", rep)
    if call["command"] != ["/scripts/runner.sh"]:
        raise Violation("wrong-command", f"command {call['command']}", rep)
    vols = call["volumes"]
    by_mount = {v[1].rstrip("/") or "/": v for v in vols}
    scripts, results, data = by_mount.get("/scripts"), by_mount.get("/results"), by_mount.get("/data")
    if not scripts or not results or not data:
        raise Violation("volumes", f"missing a mount among /scripts /results /data: {vols}", rep)
    if scripts[0] != results[0]:
        raise Violation("volumes", f"/scripts and /results are different directories: {vols}", rep)
    if len(scripts) < 3 or scripts[2] != "ro" or len(data) < 3 or data[2] != "ro" or (len(results) >= 3 and results[2] != "rw"):
        raise Violation("volume-modes", f"expected /scripts ro, /results rw, /data ro: {vols}", rep)
    want_dir = obs.get("true_data_dir") or obs["ddirs"][0]
    if os.path.realpath(data[0]) != os.path.realpath(want_dir) if obs.get("true_data_dir") else os.path.normpath(data[0]) != os.path.normpath(obs["ddirs"][0]):
        # (docker takes a volume source that is not an absolute path for the NAME of a volume, not for a directory)
        raise Violation("data-dir", f"/data is {data[0]}, files are in {want_dir}", rep)
    extra = sorted((v[0], v[1]) for v in vols if v[1].rstrip("/") not in ("/scripts", "/results", "/data"))
    if extra != sorted(CACHE[c["backend"]]):
        raise Violation("cache-volumes", f"cache volumes {extra}; expected {CACHE[c['backend']]}", rep)
    want_list = "".join(f"/data/{n}\n" for n in c["names"])
    if call.get("filelist") != want_list:
        raise Violation("filelist", f"filelist.txt is {call.get('filelist')!r}; expected {want_list!r}", rep)
    if "runner.sh" not in call.get("scripts_files", []) or not (call["modes"]["runner.sh"] & 0o111):
        raise Violation("package-mount", f"/scripts does not hold an executable runner.sh: {call.get('scripts_files')} {call.get('modes')}", rep)
    if obs.get("leftover_tmp"):
        raise Violation("temp-dir-left", f"temporary working directory survived the call: {obs['leftover_tmp']}", rep)
    if os.path.isdir(scripts[0]):
        raise Violation("temp-dir-left", f"the package directory {scripts[0]} still exists after the call", rep)
    oc = c["outcome"]
    if c.get("outdir_missing"):
        # a directory that does not exist: raise, or make it - the result is never a FILE of the directory's name
        if obs.get("outdir_kind") == "file":
            raise Violation("result-location", f"the requested output directory did not exist: the result was written as a plain file at the directory's own path ({obs.get('result')})", rep)
        if oc == "success" and "exception" in obs and not obs.get("is_docker_exception"):
            return "missing-outdir-refused"
    if oc == "success":
        if "exception" in obs:
            raise Violation("success-raised", f"container succeeded but {obs['exception']}: {obs['exception_msg']}", rep)
        res = obs["result"]
        if len(res) != 1:
            raise Violation("result-count", f"{len(res)} results returned", rep)
        if os.path.normpath(os.path.dirname(res[0])) != os.path.normpath(obs["outdir"]):
            raise Violation("result-location", f"result {res[0]} is not inside the requested output directory {obs['outdir']}", rep)
        if obs["result_bytes"][0] != c["payload"]:
            raise Violation("result-content", f"returned file holds {obs['result_bytes'][0]!r}; the container wrote {c['payload']!r}", rep)
        return "success"
    if "exception" not in obs:
        raise Violation("failure-swallowed", f"container outcome {oc} but a result was returned: {obs.get('result')}", rep)
    if oc in ("fail-before", "fail-during") and not obs.get("is_docker_exception"):
        raise Violation("wrong-exception", f"container failed with DockerException; caller saw {obs['exception']}: {obs['exception_msg']}", rep)
    return "failure-propagated"


def worker(payload):
    seed, n, deadline = payload
    stats = Stats()
    dataset_class("atlas")
    import logging

    logging.getLogger("func_adl_xAOD.common.local_dataset").setLevel(logging.CRITICAL + 1)

    def body(c):
        obs = run_case(c)
        res = judge(c, obs)
        nt = len(c["names"]) >= 2 or bool(c["md"]) or c["outcome"] != "success" or res == "input-error"
        labels = (["second-query-on-same-dataset"] if c.get("second") else []) + [f"backend={c['backend']}", "outcome=" + c["outcome"], "result=" + res, f"files={len(c['names'])}", f"metadata={len(c['md'])}", "form=" + c["form"], "inputs=" + ("symlinks" if c.get("link_targets") else ("relative-paths" if c.get("rel_prefix") is not None else ("via-linked-directory" if c.get("via_link") else "files"))),
                  "outdir=" + (("missing" if c.get("outdir_missing") else "given") if c["outdir"] else "default")]
        stats.case(jdump(c), nt or bool(c.get("second")), labels, {k: c[k] for k in ("backend", "names", "dirs", "missing", "form", "md", "outcome", "fail_after", "second")})

    hyp_search(body, cases(), max_examples=n, seed=seed, stats=stats, deadline=deadline, key_fn=jdump, shrink_budget=200)
    return stats


FRESH = r'''
import sys, json
sys.path.insert(0, {pow!r})
import os, tempfile
from pathlib import Path
d = tempfile.mkdtemp() if False else os.environ["VF_SCRATCH"]
import python_on_whales
from func_adl_xAOD.atlas.xaod.local_dataset import xAODDataset
f = os.path.join(d, "a.root"); open(f, "w").write("x")
out = os.path.join(d, "out"); os.mkdir(out)
try:
    ds = xAODDataset(f, output_directory=Path(out))
    r = ds.Select("lambda e: e.EventInfo('EventInfo').runNumber()").value()
    print(json.dumps({{"ok": True, "result": [str(x) for x in r]}}))
except BaseException as e:
    print(json.dumps({{"ok": False, "exc": type(e).__name__, "msg": str(e)[:200]}}))
'''


def fresh_interpreter_case(stats: Stats):
    scratch = tempfile.mkdtemp(prefix="vf_c17f_")
    try:
        env = dict(os.environ)
        env["VF_SCRATCH"] = scratch
        env.pop("TMPDIR", None)
        r = subprocess.run([sys.executable, "-c", FRESH.format(pow=POW)], capture_output=True, text=True, env=env, timeout=120)
        line = [l for l in r.stdout.split("\n") if l.startswith("{")]
        if not line:
            raise HarnessError("fresh interpreter case produced no result: " + r.stderr[-500:])
        o = json.loads(line[-1])
        stats.case("fresh-interpreter", True, ["fresh-interpreter"], {"fresh_interpreter": o})
        if not o["ok"]:
            stats.violation("fresh-interpreter", f"in a brand-new interpreter a valid local query raises {o['exc']}: {o['msg']}", {"case": "fresh-interpreter"})
    finally:
        shutil.rmtree(scratch, ignore_errors=True)


def run(ctx: Ctx):
    ctx.rule = RULE
    ctx.assumptions = ["python_on_whales is replaced by a recording stand-in (real docker is not available)", "with two docker metadata blocks either image is accepted"]
    fresh_interpreter_case(ctx.stats)
    total = ctx.n(640, 20000)
    shards = 16
    payloads = [(derive_seed(ctx.seed, "C17", i), max(1, total // shards), ctx.deadline) for i in range(shards)]
    for st_ in run_shards("vf.props.C17", "worker", payloads):
        ctx.stats.merge(st_)


def replay(case):
    if case.get("case") == "fresh-interpreter":
        s = Stats()
        fresh_interpreter_case(s)
        return [{"key": v["key"], "what": v["what"]} for v in s.violations]
    c = case["case"]
    dataset_class("atlas")
    try:
        judge(c, run_case(c))
    except Violation as v:
        return [{"key": v.key, "what": v.what}]
    return []
