"""C06 - event collections are fetched by the requested bank, type and back-end idiom.

Generated: (i) the built-in collections of the three back ends with drawn bank strings, 1-3 uses per
query, the same collection twice, uses at event level / inside a loop / inside a Where; (ii) collections
declared through metadata (new names and names replacing a built-in, drawn container / element type
names, include files, link libraries, singleton or not, CMS element_pointer) whose C++ model is
generated from the same declaration; (iii) malformed declarations, bad calls and declarations for
another back end (must raise).
Oracle: the (container type, bank) requests the compiled job logs per event lie between those of the
laziest and the most eager reference evaluation, with the back end's idiom (ATLAS: status-checked
retrieve - an absent bank fails the event without rows; AOD: getByLabel; miniAOD: getByToken through
tokens initialised once each in the constructor by consumes<container>(InputTag(bank))); elements are
used with the declared kind (the job compiles and yields the reference values); singletons are values;
every expected header is #included and every link library listed."""
from __future__ import annotations

import re
import shutil
import tempfile

from hypothesis import strategies as st

from vf import cxx, enginea
from vf.core import Ctx, Discard, Stats, Violation, derive_seed, hyp_search, jdump, run_shards
from vf.gen.query import dataset_text
from vf.model.events import Event, events_strategy
from vf.model.schema import C, Coll, M, Schema, standard_schema
from vf.props.C10 import schema_from_json, schema_to_json
from vf.ref import linq
from vf.xlate import BACKENDS, translate

RULE = (
    "case kinds: builtin = (back end, 1-3 uses of built-in collections with drawn banks at event level / in a loop / in a Where, same "
    "collection twice, on ATLAS sometimes an absent bank); declared = (back end, a drawn metadata declaration - new or built-in name, "
    "singleton or not, element_pointer on CMS, include files, link libraries - with its generated model, queries using it next to a "
    "built-in); bad = malformed declaration / bad call / other back end's declaration (must raise). non-trivial = >=2 uses with different "
    "banks or types, or a metadata-declared collection, or an expected error; distinct by (back end, uses, declaration)."
)

NUMS = {"xAOD::Jet": "pt", "xAOD::TrackParticle": "pt", "xAOD::Electron": "pt", "xAOD::Muon": "pt", "xAOD::TruthParticle": "pt", "xAOD::MissingET": "met",
        "xAOD::EventInfo": "runNumber", "reco::Track": "pt", "reco::Muon": "pt", "reco::Vertex": "z", "reco::GsfElectron": "pt", "pat::Muon": "pt", "pat::Electron": "pt",
        "myns::K0": "s00", "myns::K1": "s10"}

bank_text = st.one_of(st.sampled_from(["AntiKt4", "muons", "b", "x1"]), st.text(alphabet="abcdefXYZ0123456789_", min_size=1, max_size=10))


def with_banks(schema: Schema, banks_by_acc):
    """copy of the schema whose collections carry the drawn bank names"""
    colls = [Coll(**{**c.__dict__, "banks": tuple(banks_by_acc.get(c.accessor, c.banks))}) for c in schema.colls]
    return Schema(schema.backend, schema.classes, colls, schema.name, schema.enums)


@st.composite
def use_query(draw, schema: Schema, must_use=None, allow_missing=False):
    """(query text, uses, absent) over the schema's collections"""
    colls = list(schema.colls)
    n = draw(st.integers(1, 3))
    picks = [draw(st.sampled_from(colls[:2] + colls)) for _ in range(n)]
    if must_use is not None and must_use not in picks:
        picks[draw(st.integers(0, len(picks) - 1))] = must_use
    if must_use is not None and draw(st.integers(0, 2)) == 0:
        # a built-in collection first, the declared one after it (they may share headers but not libraries)
        picks = [colls[0], must_use]
        n = 2
    others = [c for c in colls if not c.builtin and c is not must_use]
    if must_use is not None and others and draw(st.integers(0, 1)) == 0:
        # two declared collections in one query, in either order
        picks = [others[0], must_use] if draw(st.booleans()) else [must_use, others[0]]
        n = 2
    elif n >= 2 and draw(st.integers(0, 3)) == 0:
        picks[1] = picks[0]  # the same collection twice
    if must_use is not None and must_use not in picks:
        picks[0] = must_use
    uses = []
    for c in picks:
        b = draw(bank_text) if not draw(st.integers(0, 3)) == 0 or not uses else uses[-1][1]
        uses.append((c, b))

    def scalar(c, b, var="x"):
        m = NUMS[c.element]
        if c.singleton:
            return f"e.{c.accessor}({b!r}).{m}()"
        return f"e.{c.accessor}({b!r}).Select(lambda {var}: {var}.{m}())"

    cols = []
    first = uses[0]
    pos = draw(st.sampled_from(["event", "event", "loop", "where"])) if len(uses) >= 2 and not first[0].singleton else "event"
    if pos == "event":
        for c, b in uses:
            cols.append(scalar(c, b) if draw(st.booleans()) or c.singleton else f"e.{c.accessor}({b!r}).Count()")
    elif pos == "loop":
        c0, b0 = first
        inner = []
        for c, b in uses[1:]:
            inner.append(f"e.{c.accessor}({b!r}).Count()" if not c.singleton else f"e.{c.accessor}({b!r}).{NUMS[c.element]}()")
        cols.append(f"e.{c0.accessor}({b0!r}).Select(lambda o: o.{NUMS[c0.element]}() + {' + '.join(inner)})")
    else:
        c0, b0 = first
        conds = []
        for c, b in uses[1:]:
            conds.append(f"e.{c.accessor}({b!r}).Count() > 0" if not c.singleton else f"e.{c.accessor}({b!r}).{NUMS[c.element]}() > 0")
        cols.append(f"e.{c0.accessor}({b0!r}).Where(lambda o: {' and '.join(conds)}).Select(lambda o: o.{NUMS[c0.element]}())")
    body = "(" + ", ".join(cols) + ("," if len(cols) == 1 else "") + ")"
    text = f"Select({dataset_text(schema)}, lambda e: {body})"
    return text, [(c.accessor, b) for c, b in uses], pos


def check_run(schema: Schema, model_dir: str, text: str, uses, evs, rep):
    backend = schema.backend
    r = enginea.execute(text, backend, evs, model_dir)
    if r.stage == "rejected":
        raise Violation("rejected", f"valid collection use rejected: {r.error}", rep)
    if r.stage != "ok":
        raise Violation(r.stage, f"{r.stage}: {r.error}", rep)
    out = r.out
    ref = linq.evaluate(text, schema, evs)
    src = r.pkg.files.get("query.cxx") or r.pkg.files.get("Analyzer.cc")
    for k, (rf, ob) in enumerate(zip(ref, out["events"])):
        m = enginea.compare_event(rf, ob)
        if m:
            raise Violation("values", f"event {k + 1}: {m}", rep)
        got = set(ob["reqs"])
        hi = set(tuple(x) for x in rf["eager"]["reqs"])
        lo = set(tuple(x) for x in rf["need"]["reqs"])
        if "status_failure" in rf["eager"] or "fault" in rf["eager"]:
            if not got <= hi:
                raise Violation("requests", f"event {k + 1}: the job requested {sorted(got - hi)} which the query does not ask for", rep)
            continue
        if not (lo <= got <= hi):
            raise Violation("requests", f"event {k + 1}: the job requested {sorted(got)}; the query asks for between {sorted(lo)} and {sorted(hi)}", rep)
    # idiom - judged from the driver's log, not from the text of the generated code
    cons = out["consumes"]
    used_tokens = {t for e in out["events"] for t in e["tokenuse"]}
    if backend == "atlas":
        # status-checked retrieval: an absent bank must fail the event (compare_event above requires STATUS-FAILURE and no rows);
        # nothing token-like may appear
        if cons or used_tokens:
            raise Violation("idiom-atlas", "the ATLAS job used CMS token retrieval", rep)
    elif backend == "cms_aod":
        if cons or used_tokens:
            raise Violation("idiom-aod", f"the CMS AOD job fetched through tokens ({cons[:2]}), not by label", rep)
    else:
        if any(c["when"] != "init" for c in cons):
            raise Violation("idiom-miniaod", "a token was initialised while processing events", rep)
        serials = [c["serial"] for c in cons]
        if not used_tokens <= set(serials):
            raise Violation("idiom-miniaod", f"tokens {sorted(used_tokens - set(serials))} used but never initialised with consumes", rep)
        want = {(schema.coll(a).container, b) for a, b in uses}
        have = {(c["type"], c["tag"]) for c in cons}
        requested = {(t, b) for e in out["events"] for (t, b) in e["reqs"]}
        if requested and not used_tokens:
            raise Violation("idiom-miniaod", "the miniAOD job fetched collections without tokens", rep)
        if not have <= want or not requested <= have:
            raise Violation("idiom-miniaod", f"tokens consume {sorted(have)}; the query uses {sorted(want)}", rep)
        if len(cons) != len(set(serials)):
            raise Violation("idiom-miniaod", "a token was initialised twice", rep)
    # headers and libraries
    for a, b in uses:
        col = schema.coll(a)
        for h_ in col.headers:
            if f'#include "{h_}"' not in src:
                raise Violation("header-missing", f'{a}: #include "{h_}" is not in the generated source', rep)
        if backend == "atlas":
            cm = r.pkg.files["package_CMakeLists.txt"]
            m = re.search(r"LINK_LIBRARIES AnaAlgorithmLib (.*?)\)\n", cm)
            libs = m.group(1).split() if m else []
            for lib in col.libs:
                if lib not in libs:
                    raise Violation("library-missing", f"{a}: link library {lib} is not in LINK_LIBRARIES {libs}", rep)
    return ref


# ---------------------------------------------------------------- declared collections


@st.composite
def declared_schema(draw, backend):
    base = standard_schema(backend)
    shadow = draw(st.sampled_from([True, False]))  # choices ordered so that Hypothesis' simplest declaration is an interesting one
    builtin_names = [c.accessor for c in base.colls if not c.singleton]
    name = draw(st.sampled_from(builtin_names)) if shadow else draw(st.sampled_from(["MyColl", "Things", "ForkInfo", "calo_clusters"]))
    singleton = backend == "atlas" and draw(st.sampled_from([False, True, False]))
    tname = draw(st.sampled_from(["myns::K0", "myns::K0"]))
    cont = "myns::K0" if singleton else draw(st.sampled_from(["myns::K0Container", "myns::K0Vec"]))
    builtin_header = [c for c in base.colls if not c.singleton][0].headers[0]
    # the declaration may name exactly the header a built-in collection already asks for (and still need its own libraries)
    headers = draw(st.sampled_from([(builtin_header,), None, None]))
    if headers is None:
        headers = tuple(draw(st.lists(st.sampled_from(["myns/K0Container.h", "myns/K0.h", "myns/extra.h", builtin_header]), min_size=1, max_size=2, unique=True)))
    libs = tuple(draw(st.lists(st.sampled_from(["MyNsLib", "OtherLib"]), min_size=0 if draw(st.integers(0, 3)) == 0 else 1, max_size=2, unique=True))) if backend == "atlas" else ()
    if backend == "atlas":
        elem_ptr, declared_ptr = True, None
    else:
        declared_ptr = draw(st.sampled_from([True, None, False]))
        elem_ptr = bool(declared_ptr)
    k0 = C("myns::K0", [M("s00", "num"), M("s01", "num", "int", declared=True)])
    classes = dict(base.classes)
    classes["myns::K0"] = k0
    colls = [c for c in base.colls if c.accessor != name]
    new = Coll(name, cont, "myns::K0", headers, libs, singleton=singleton, elem_ptr=elem_ptr, builtin=False, banks=("decl1", "decl2"), declared_elem_ptr=declared_ptr)
    colls.append(new)
    # a second declaration in the same query: another name, container, element type, header and library
    if draw(st.sampled_from([True, False, True])):
        classes["myns::K1"] = C("myns::K1", [M("s10", "num"), M("s11", "num", "int", declared=True)])
        name2 = draw(st.sampled_from([n for n in ["Second", "OtherThings", "MyColl"] if n != name]))
        ptr2 = None if backend == "atlas" else draw(st.sampled_from([None, True, False]))
        colls.append(Coll(name2, draw(st.sampled_from(["myns::K1Container", "myns::K1Vec"])), "myns::K1", ("myns/K1Container.h",), ("K1Lib",) if backend == "atlas" else (),
                          singleton=False, elem_ptr=True if backend == "atlas" else bool(ptr2), builtin=False, banks=("decl3",), declared_elem_ptr=ptr2))
    return Schema(backend, classes, colls, f"decl-{backend}", []), new


# ---------------------------------------------------------------- must-raise


@st.composite
def bad_cases(draw, backend):
    sch = standard_schema(backend)
    key = {"atlas": "add_atlas_event_collection_info", "cms_aod": "add_cms_aod_event_collection_info", "cms_miniaod": "add_cms_miniaod_event_collection_info"}
    good = {"metadata_type": key[backend], "name": "MyColl", "include_files": ["a.h"], "container_type": "ns::C", "element_type": "ns::E", "contains_collection": True}
    col = draw(st.sampled_from([c for c in sch.colls if not c.singleton]))
    m = NUMS[col.element]
    kind = draw(st.sampled_from(["unknown-key", "missing-key", "element-type-on-singleton", "no-element-type", "no-args", "two-args", "int-arg", "name-arg", "other-backend",
                                 "select-on-singleton", "other-family-key", "other-family-key"]))
    md = None
    prelude = None
    use = f"e.{col.accessor}('b').Select(lambda x: x.{m}())"
    if kind == "unknown-key":
        md = dict(good)
        md[draw(st.sampled_from(["bogus", "elements", "element_ptr", "libraries"]))] = "x"
    elif kind == "missing-key":
        md = dict(good)
        del md[draw(st.sampled_from(["name", "include_files", "container_type", "contains_collection"]))]
    elif kind == "element-type-on-singleton":
        md = dict(good)
        md["contains_collection"] = False
    elif kind == "no-element-type":
        md = dict(good)
        del md["element_type"]
    elif kind == "no-args":
        use = f"e.{col.accessor}().Select(lambda x: x.{m}())"
    elif kind == "two-args":
        use = f"e.{col.accessor}('a', 'b').Select(lambda x: x.{m}())"
    elif kind == "int-arg":
        use = f"e.{col.accessor}({draw(st.sampled_from(['1', '2.5', 'True', 'None']))}).Select(lambda x: x.{m}())"
    elif kind == "name-arg":
        use = f"e.{col.accessor}(e).Select(lambda x: x.{m}())"
    elif kind == "other-family-key":
        # a key that only the OTHER family of back ends knows (link_libraries: ATLAS; element_pointer: CMS) - whatever this process translated before
        md = dict(good)
        if backend == "atlas":
            md["element_pointer"] = draw(st.booleans())
            other = draw(st.sampled_from(["cms_aod", "cms_miniaod"]))
            other_md = {"metadata_type": key[other], "name": "Theirs", "include_files": ["t.h"], "container_type": "ns::T", "element_type": "ns::TE", "contains_collection": True,
                        "element_pointer": draw(st.booleans())}
        else:
            md["link_libraries"] = ["SomeLib"]
            other = "atlas"
            other_md = {"metadata_type": key[other], "name": "Theirs", "include_files": ["t.h"], "container_type": "ns::T", "element_type": "ns::TE", "contains_collection": True,
                        "link_libraries": ["TheirLib"]}
        if draw(st.integers(0, 3)) > 0:
            prelude = (other, f"Select(MetaData(EventDataset('ds'), {other_md!r}), lambda e: e.Theirs('b').Select(lambda x: x.pt()))")
    elif kind == "other-backend":
        other = draw(st.sampled_from([b for b in BACKENDS if b != backend]))
        md = dict(good)
        md["metadata_type"] = key[other]
    elif kind == "select-on-singleton":
        if backend != "atlas":
            use = f"e.{col.accessor}('a', 'b').Count()"
        else:
            use = "e.EventInfo('EventInfo').Select(lambda x: x.runNumber())"
    ds = "EventDataset('ds')"
    if md is not None:
        ds = f"MetaData({ds}, {md!r})"
    return {"backend": backend, "kind": kind, "text": f"Select({ds}, lambda e: {use})", "prelude": prelude}


# ---------------------------------------------------------------- workers


def worker(payload):
    seed, n_builtin, n_bad, n_decl, n_decl_q, deadline, backend = payload
    stats = Stats()
    sch0 = standard_schema(backend)

    @st.composite
    def builtin_case(draw):
        text, uses, pos = draw(use_query(sch0))
        banks = {}
        for a, b in uses:
            banks.setdefault(a, []).append(b)
        sch = with_banks(sch0, banks)
        evs = draw(events_strategy(sch, uses, n_min=2, n_max=4, allow_missing_bank=(backend == "atlas")))
        return text, uses, pos, sch, evs

    def body(case):
        text, uses, pos, sch, evs = case
        rep = {"backend": backend, "query": text, "uses": uses, "events": [e.to_json() for e in evs], "kind": "builtin"}
        check_run(sch, cxx.std_model(backend), text, uses, evs, rep)
        distinct = len({(sch.coll(a).container, b) for a, b in uses})
        missing = any(e.find_bank(sch.coll(a).container, b) is None for e in evs for a, b in uses)
        stats.case(jdump([backend, text]), distinct >= 2, [f"backend={backend}", "kind=builtin", "position=" + pos, f"uses={len(uses)}"] + (["absent-bank"] if missing else []) +
                   (["same-collection-twice"] if len({a for a, _ in uses}) < len(uses) else []), {"backend": backend, "query": text[text.index("lambda"):][-250:], "uses": uses})

    hyp_search(body, builtin_case(), max_examples=n_builtin, seed=seed, stats=stats, deadline=deadline,
               key_fn=lambda c: jdump([c[0], [e.to_json() for e in c[4]]]), shrink_budget=60)

    def bad_body(c):
        if c.get("prelude"):
            # a well-formed declaration of the other family, translated by its own back end earlier in this process
            try:
                translate(c["prelude"][1], c["prelude"][0])
            except Exception:
                pass
        try:
            translate(c["text"], backend)
        except Exception as e:
            stats.case(jdump(c), True, [f"backend={backend}", "kind=bad", "bad=" + c["kind"], "raised=" + type(e).__name__], {"backend": backend, "bad": c["kind"], "query": c["text"][-200:]})
            return
        raise Violation("accepted-" + c["kind"], f"malformed declaration / call accepted ({c['kind']})", {"backend": backend, "query": c["text"], "kind": "bad", "bad": c["kind"], "prelude": c.get("prelude")})

    hyp_search(bad_body, bad_cases(backend), max_examples=n_bad, seed=derive_seed(seed, "bad"), stats=stats, deadline=deadline, key_fn=jdump, shrink_budget=100)

    root = tempfile.mkdtemp(prefix="vf_c06_")
    try:
        def decl_body(sc):
            schema, new = sc
            model_dir = cxx.build_model(schema, pch=True, root=root)
            try:
                @st.composite
                def qcases(draw):
                    text, uses, pos = draw(use_query(schema, must_use=new))
                    banks = {}
                    for a, b in uses:
                        banks.setdefault(a, []).append(b)
                    sch = with_banks(schema, banks)
                    evs = draw(events_strategy(sch, uses, n_min=2, n_max=3))
                    return text, uses, pos, sch, evs

                def qbody(case):
                    text, uses, pos, sch, evs = case
                    rep = {"backend": backend, "query": text, "uses": uses, "events": [e.to_json() for e in evs], "kind": "declared", "schema_obj": schema_to_json(sch)}
                    check_run(sch, model_dir, text, uses, evs, rep)
                    stats.case(jdump([backend, new.__dict__, text]), True, [f"backend={backend}", "kind=declared", "position=" + pos, "singleton" if new.singleton else "collection",
                                                                            "replaces-builtin" if new.accessor in [c.accessor for c in sch0.colls] else "new-name",
                                                                            f"element_pointer={new.declared_elem_ptr}",
                                                                            "declared-collections-used=%d" % len({a for a, _ in uses if not sch.coll(a).builtin})],
                               {"backend": backend, "declaration": {k: v for k, v in new.__dict__.items() if k != "banks"}, "query": text[text.index("lambda"):][-200:]})

                hyp_search(qbody, qcases(), max_examples=n_decl_q, seed=derive_seed(seed, new.accessor, new.container), stats=stats, deadline=deadline,
                           key_fn=lambda c: jdump([c[0], [e.to_json() for e in c[4]]]), shrink_budget=30, max_rounds=2)
                if new.singleton:
                    bad = f"Select({dataset_text(schema)}, lambda e: e.{new.accessor}('b').Select(lambda x: x.s00()))"
                    try:
                        translate(bad, backend)
                        stats.violation("singleton-iterated", "Select over a declared singleton collection was accepted", {"backend": backend, "query": bad, "kind": "bad", "bad": "singleton-iterated"})
                    except Exception:
                        pass
            finally:
                shutil.rmtree(model_dir, ignore_errors=True)

        hyp_search(decl_body, declared_schema(backend), max_examples=n_decl, seed=derive_seed(seed, "decl"), stats=stats, deadline=deadline, shrink=False, max_rounds=1)
    finally:
        shutil.rmtree(root, ignore_errors=True)
    return stats


def run(ctx: Ctx):
    ctx.rule = RULE
    ctx.assumptions = ["requests are compared as sets per event (func_adl may inline a use into several places or the translator may share one fetch)",
                       "expected headers / link libraries of built-ins come from the table in vf/model/schema.py", "CMS singleton declarations are outside the generated domain"]
    for be in BACKENDS:
        cxx.std_model(be)
    shards = 15
    payloads = [(derive_seed(ctx.seed, "C06", i), ctx.n(8, 160), ctx.n(20, 400), ctx.n(2, 6), ctx.n(5, 12), ctx.deadline, BACKENDS[i % 3]) for i in range(shards)]
    for st_ in run_shards("vf.props.C06", "worker", payloads):
        ctx.stats.merge(st_)


def replay(case):
    if case.get("kind") == "bad":
        if case.get("prelude"):
            try:
                translate(case["prelude"][1], case["prelude"][0])
            except Exception:
                pass
        try:
            translate(case["query"], case["backend"])
        except Exception:
            return []
        return [{"key": "accepted-" + case.get("bad", "bad"), "what": "accepted"}]
    evs = [Event.from_json(j) for j in case["events"]]
    uses = [tuple(u) for u in case["uses"]]
    root = None
    try:
        if case.get("kind") == "declared":
            schema = schema_from_json(case["schema_obj"])
            root = tempfile.mkdtemp(prefix="vf_c06r_")
            md = cxx.build_model(schema, pch=False, root=root)
        else:
            banks = {}
            for a, b in uses:
                banks.setdefault(a, []).append(b)
            schema = with_banks(standard_schema(case["backend"]), banks)
            md = cxx.std_model(case["backend"])
        try:
            check_run(schema, md, case["query"], uses, evs, {})
        except Violation as v:
            return [{"key": v.key, "what": v.what}]
        return []
    finally:
        if root:
            shutil.rmtree(root, ignore_errors=True)
