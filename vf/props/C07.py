"""C07 - translating a query is independent of every query handled before it.

Stateful (Hypothesis RuleBasedStateMachine): every example owns a child process forked from a
pristine parent (package imported, nothing ever translated).  Rules send translation steps to the
child - queries that declare everything global state can remember (method types incl. re-typing pt
as int, enums, collections, C++ functions, job scripts, code blocks, extended metadata), on a new or on
the current executor, succeeding or failing at a drawn stage (bad metadata after good metadata,
untranslatable body, unwritable output directory).  The probe rule translates a probe query in that
child and compares with the same probe in a fresh process: same exception type, or packages equal up
to numbering, same descriptor, same 'assuming ... double' warnings."""
from __future__ import annotations

import json
import os
import shutil
import struct
import sys
import tempfile
import traceback
from typing import Any, Dict, List, Optional

import hypothesis
from hypothesis import HealthCheck, Phase, settings
from hypothesis import strategies as st
from hypothesis.stateful import RuleBasedStateMachine, initialize, invariant, precondition, rule, run_state_machine_as_test

from vf.core import Ctx, Stats, Violation, derive_seed, jdump, run_shards
from vf.norm import compare_packages
from vf.xlate import BACKENDS

RULE = (
    "case = history of 1-8 translation steps (drawn from a pool of declaring / failing queries on 3 back ends, from C09's generator of queries with one "
    "unsupported construct - every refusal path - and from C01's generator of valid queries; each on a new or the current executor) followed by probes; every probe is compared with the same probe in a pristine process. non-trivial = history with >=2 steps of "
    "which >=1 declares something and >=1 fails, followed by a probe; distinct by (history, probe)."
)

JET_INT = {"metadata_type": "add_method_type_info", "type_string": "xAOD::Jet", "method_name": "pt", "return_type": "int"}
JET_VEC = {"metadata_type": "add_method_type_info", "type_string": "xAOD::Jet", "method_name": "eta", "return_type_element": "float", "return_type_collection": "std::vector<float>"}
MU_INT = {"metadata_type": "add_method_type_info", "type_string": "reco::Muon", "method_name": "pt", "return_type": "int"}
PATMU_INT = {"metadata_type": "add_method_type_info", "type_string": "pat::Muon", "method_name": "pt", "return_type": "int"}
ENUM = {"metadata_type": "define_enum", "namespace": "xAOD.Jet", "name": "Color", "values": ["Red", "Blue"]}
ENUM2 = {"metadata_type": "define_enum", "namespace": "MyNS", "name": "Kind", "values": ["A", "B"]}
COLL = {"metadata_type": "add_atlas_event_collection_info", "name": "MyJets", "include_files": ["xAODJet/JetContainer.h"], "container_type": "xAOD::JetContainer", "element_type": "xAOD::Jet", "contains_collection": True}
COLL_REPLACE = {"metadata_type": "add_atlas_event_collection_info", "name": "Jets", "include_files": ["other/Other.h"], "container_type": "xAOD::OtherContainer", "element_type": "xAOD::Other", "contains_collection": True}
COLL_PRIVATE_KEY = dict(COLL, element_pointer=True)  # element_pointer is a CMS key: refused on ATLAS, whatever came before
CMS_COLL = {"metadata_type": "add_cms_aod_event_collection_info", "name": "MyMuons", "include_files": ["DataFormats/MuonReco/interface/Muon.h"], "container_type": "reco::MuonCollection",
            "element_type": "reco::Muon", "contains_collection": True, "element_pointer": False}
CMS_COLL_PRIVATE_KEY = dict(CMS_COLL, link_libraries=["SomeLib"])  # link_libraries is an ATLAS key: refused on CMS
MINI_COLL = {"metadata_type": "add_cms_miniaod_event_collection_info", "name": "MyMuons", "include_files": ["DataFormats/PatCandidates/interface/Muon.h"], "container_type": "pat::MuonCollection",
             "element_type": "pat::Muon", "contains_collection": True}
# a miniAOD declaration of a collection of reco:: objects - the class names CMS AOD has default method types for
MINI_RECO_COLL = {"metadata_type": "add_cms_miniaod_event_collection_info", "name": "RecoMuons", "include_files": ["DataFormats/MuonReco/interface/Muon.h"],
                  "container_type": "reco::MuonCollection", "element_type": "reco::Muon", "contains_collection": True}
FUNC = {"metadata_type": "add_cpp_function", "name": "MyFunc", "include_files": ["myfunc.h"], "arguments": ["a"], "code": ["double result = a * 2;"], "return_type": "double"}
TRUTH_NEW = {"metadata_type": "add_method_type_info", "type_string": "xAOD::TruthParticle", "method_name": "nKids", "return_type": "int"}
TRUTH_OVERRIDE = {"metadata_type": "add_method_type_info", "type_string": "xAOD::TruthParticle", "method_name": "prodVtx", "return_type": "int"}
GSF_NEW = {"metadata_type": "add_method_type_info", "type_string": "reco::GsfElectron", "method_name": "nBrem", "return_type": "int"}
FUNC_V2 = {"metadata_type": "add_cpp_function", "name": "MyFunc", "include_files": ["other.h"], "arguments": ["a"], "code": ["double result = a + 100;"], "return_type": "double"}
COLL_V2 = {"metadata_type": "add_atlas_event_collection_info", "name": "MyJets", "include_files": ["xAODMuon/MuonContainer.h"], "container_type": "xAOD::MuonContainer", "element_type": "xAOD::Muon", "contains_collection": True}
SCRIPT = {"metadata_type": "add_job_script", "name": "s1", "script": ["leak_line_1 = 1"], "depends_on": []}
SCRIPT2 = {"metadata_type": "add_job_script", "name": "s2", "script": ["leak_line_2 = 2"], "depends_on": ["s1"]}
BLOCK = {"metadata_type": "inject_code", "name": "b1", "body_includes": ["leak.h"], "ctor_lines": ["int leak = 1;"], "link_libraries": ["LeakLib"]}
XMD = {"metadata_type": "vf_docker", "image": "leaky/image:1"}
BAD_MD = {"metadata_type": "no_such_metadata"}


def q(body: str, mds=(), src="EventDataset('ds')"):
    for md in mds:
        src = f"MetaData({src}, {md!r})"
    return body.replace("DS", src)


A_PT = "Select(DS, lambda e: e.Jets('AntiKt4').Select(lambda j: j.pt()))"
A_PT2 = "Select(DS, lambda e: e.Jets('AntiKt4').Select(lambda j: j.pt() / 2 + j.eta()))"
A_ENUM = "Select(DS, lambda e: e.Jets('AntiKt4').Select(lambda j: j.color() == xAOD.Jet.Color.Red))"
A_ENUM2 = "Select(DS, lambda e: e.Jets('AntiKt4').Where(lambda j: j.kind() == MyNS.Kind.B).Count())"
A_MYJETS = "Select(DS, lambda e: e.MyJets('b').Select(lambda j: j.pt()))"
A_FUNC = "Select(DS, lambda e: e.Jets('AntiKt4').Select(lambda j: MyFunc(j.pt())))"
A_BAD_BODY = "Select(DS, lambda e: e.Jets('AntiKt4').Select(lambda j: j.pt() // 2))"
A_XMD = "Select(DS, lambda e: e.EventInfo('EventInfo').runNumber())"
A_TRUTH = "Select(DS, lambda e: e.TruthParticles('Truth').Select(lambda t: t.prodVtx().x()))"  # relies on the ATLAS default method types
C_TRK = "Select(DS, lambda e: e.Muons('muons').Select(lambda m: m.globalTrack().pt()))"  # relies on the CMS default method types
M_TRK = "Select(DS, lambda e: e.Muons('slimmedMuons').Select(lambda m: m.isPFMuon()))"
A_KIDS = "Select(DS, lambda e: e.TruthParticles('Truth').Select(lambda t: t.nKids()))"
A_PVTX = "Select(DS, lambda e: e.TruthParticles('Truth').Select(lambda t: t.prodVtx()))"
C_BREM = "Select(DS, lambda e: e.GsfElectrons('gsf').Select(lambda g: g.nBrem()))"
C_PT = "Select(DS, lambda e: e.Muons('muons').Select(lambda m: m.pt()))"
C_MYMU = "Select(DS, lambda e: e.MyMuons('mine').Select(lambda m: m.pt()))"
M_PT = "Select(DS, lambda e: e.Muons('slimmedMuons').Select(lambda m: m.pt()))"

# steps: (label, backend, query text, declares?, expected to fail?, needs extended md?)
STEP_POOL = [
    ("plain", "atlas", q(A_PT), False, False),
    ("declare-pt-int", "atlas", q(A_PT, [JET_INT]), True, False),
    ("declare-eta-vector-then-bad-md", "atlas", q(A_PT, [BAD_MD, JET_VEC]), True, True),
    ("declare-pt-int-then-bad-md", "atlas", q(A_PT, [BAD_MD, JET_INT]), True, True),
    ("declare-pt-int-then-bad-body", "atlas", q(A_BAD_BODY, [JET_INT]), True, True),
    ("declare-enum", "atlas", q(A_ENUM, [ENUM]), True, False),
    ("declare-enum2-then-bad-body", "atlas", q(A_BAD_BODY, [ENUM2]), True, True),
    ("declare-collection", "atlas", q(A_MYJETS, [COLL]), True, False),
    ("replace-collection", "atlas", q(A_PT, [COLL_REPLACE]), True, False),
    ("declare-function", "atlas", q(A_FUNC, [FUNC]), True, False),
    ("declare-function-v2", "atlas", q(A_FUNC, [FUNC_V2]), True, False),
    ("declare-collection-v2", "atlas", q(A_MYJETS, [COLL_V2]), True, False),
    ("declare-on-class-with-defaults", "atlas", q(A_KIDS, [TRUTH_NEW]), True, False),
    ("override-a-default-type", "atlas", q(A_PVTX, [TRUTH_OVERRIDE]), True, False),
    ("override-a-default-type-then-bad-body", "atlas", q(A_BAD_BODY, [TRUTH_OVERRIDE]), True, True),
    ("cms-declare-on-class-with-defaults", "cms_aod", q(C_BREM, [GSF_NEW]), True, False),
    ("atlas-default-types", "atlas", q(A_TRUTH), False, False),
    ("cms-default-types", "cms_aod", q(C_TRK), False, False),
    ("miniaod-default-types", "cms_miniaod", q(M_TRK), False, False),
    ("job-scripts", "atlas", q(A_PT, [SCRIPT, SCRIPT2]), True, False),
    ("job-script-then-bad-body", "atlas", q(A_BAD_BODY, [SCRIPT]), True, True),
    ("code-block", "atlas", q(A_PT, [BLOCK]), True, False),
    ("code-block-then-bad-body", "atlas", q(A_BAD_BODY, [BLOCK]), True, True),
    ("extended-md", "atlas", q(A_XMD, [XMD]), True, False),
    ("extended-md-pt", "atlas", q(A_PT, [XMD]), True, False),
    ("extended-md-then-bad-body", "atlas", q(A_BAD_BODY, [XMD]), True, True),
    ("extended-md-cms", "cms_aod", q(C_PT, [XMD]), True, False),
    ("cms-declare-collection", "cms_aod", q(C_MYMU, [CMS_COLL]), True, False),
    ("miniaod-declare-collection", "cms_miniaod", q(C_MYMU, [MINI_COLL]), True, False),
    ("cms-collection-with-atlas-key", "cms_aod", q(C_MYMU, [CMS_COLL_PRIVATE_KEY]), True, True),
    ("atlas-collection-with-cms-key", "atlas", q(A_MYJETS, [COLL_PRIVATE_KEY]), True, True),
    ("cms-plain", "cms_aod", q(C_PT), False, False),
    ("cms-declare-pt-int", "cms_aod", q(C_PT, [MU_INT]), True, False),
    ("cms-declare-pt-int-then-bad-md", "cms_aod", q(C_PT, [BAD_MD, MU_INT]), True, True),
    ("miniaod-plain", "cms_miniaod", q(M_PT), False, False),
    ("miniaod-declare-then-bad-md", "cms_miniaod", q(M_PT, [BAD_MD, PATMU_INT]), True, True),
]
# steps that may also be "transformed only" (apply_ast_transformations without write_cpp_files): the ones that declare no method types / enums
APPLY_ONLY_OK = {"plain", "job-scripts", "job-script-then-bad-body", "code-block", "code-block-then-bad-body", "declare-function", "declare-function-v2", "declare-collection",
                 "declare-collection-v2", "replace-collection", "cms-plain", "miniaod-plain", "cms-declare-collection", "miniaod-declare-collection"}
PROBES = [
    ("atlas", q(A_PT)), ("atlas", q(A_PT2)), ("atlas", q(A_ENUM)), ("atlas", q(A_ENUM2)), ("atlas", q(A_MYJETS)), ("atlas", q(A_FUNC)),
    ("atlas", q(A_XMD, [XMD])), ("atlas", q(A_XMD)), ("cms_aod", q(C_PT)), ("cms_miniaod", q(M_PT)),
    ("atlas", q("Select(DS, lambda e: (e.Jets('AntiKt4').Select(lambda j: j.pt()).First(), e.Jets('AK10').Count() / 2))")),
    ("atlas", q(A_FUNC, [FUNC])), ("atlas", q(A_FUNC, [FUNC_V2])), ("atlas", q(A_MYJETS, [COLL])), ("atlas", q(A_MYJETS, [COLL_V2])),
    ("atlas", q(A_TRUTH)), ("cms_aod", q(C_TRK)), ("cms_miniaod", q(M_TRK)), ("atlas", q(A_KIDS)), ("cms_aod", q(C_BREM)),
    ("atlas", q(A_PT, [XMD])), ("atlas", q(A_PT2, [XMD])), ("cms_aod", q(C_PT, [XMD])),
    ("atlas", q(A_MYJETS, [COLL_PRIVATE_KEY])), ("cms_aod", q(C_MYMU, [CMS_COLL_PRIVATE_KEY])), ("cms_aod", q(C_MYMU, [CMS_COLL])), ("cms_miniaod", q(C_MYMU, [MINI_COLL])),
    ("cms_miniaod", q("Select(DS, lambda e: e.RecoMuons('x').Select(lambda m: m.isPFMuon()))", [MINI_RECO_COLL])),
    ("cms_miniaod", q("Select(DS, lambda e: e.RecoMuons('x').Select(lambda m: m.globalTrack().pt()))", [MINI_RECO_COLL])),
    # a parameter spelled like the names func_adl invents from a process-wide counter (two digits: the counter gets there after a few translations)
    ("atlas", q("Select(DS, lambda e: e.Jets('AntiKt4').Select(lambda arg_12: arg_12.getAttributeVectorFloat('w').Select(lambda t: t * 2).Select(lambda p: p + arg_12.eta())))")),
    ("atlas", q("Select(DS, lambda e: e.Jets('AntiKt4').Select(lambda arg_25: arg_25.getAttributeVectorFloat('w').Select(lambda t: t * 2).Select(lambda p: p + arg_25.eta())))")),
    ("atlas", q(A_PT, [SCRIPT2])),  # depends on s1 that only an earlier query sent: must fail
    ("atlas", q(A_XMD, [XMD]) + " "),  # trailing blank = do NOT register the extended metadata type first: must fail in a fresh process
]


# queries built the way func_adl's ObjectStream builds them: several queries derived from ONE base stream share that base's AST *object*
# (jets = ds.MetaData(..).Select(..); jets.Select(a).value(); jets.Select(b).value()).  (back end, base text, tails with BASE standing for the shared object)
SHARED = [
    ("atlas", q("Select(DS, lambda e: e.Jets('AntiKt4'))", [JET_INT]), ["Select(BASE, lambda js: js.Count())", "Select(BASE, lambda js: js.Select(lambda j: j.pt() / 2))", "BASE"]),
    ("atlas", q("Select(DS, lambda e: e.Jets('AntiKt4'))", [FUNC, SCRIPT, BLOCK]), ["Select(BASE, lambda js: js.Select(lambda j: MyFunc(j.pt())))", "Select(BASE, lambda js: js.Count())"]),
    ("atlas", q("Select(DS, lambda e: e.MyJets('b'))", [COLL]), ["Select(BASE, lambda js: js.Count())", "Select(BASE, lambda js: js.Select(lambda j: j.pt()))"]),
    ("atlas", q(A_ENUM, [ENUM]), ["BASE", "Select(BASE, lambda bs: bs.Count())"]),
    ("cms_aod", q("Select(DS, lambda e: e.Muons('muons'))", [MU_INT]), ["Select(BASE, lambda ms: ms.Count())", "Select(BASE, lambda ms: ms.Select(lambda m: m.pt() / 2))"]),
    ("cms_miniaod", q("Select(DS, lambda e: e.Muons('slimmedMuons'))"), ["Select(BASE, lambda ms: ms.Count())", "Select(BASE, lambda ms: ms.Select(lambda m: m.pt()))", "BASE"]),
    ("cms_miniaod", q(C_MYMU, [MINI_COLL]), ["BASE", "Select(BASE, lambda ps: ps.Count())"]),
]

# what a step can leave behind is looked for by a probe that mentions the same things: half of the probes are drawn among those
_TAG_WORDS = ["Color", "Kind", "MyJets", "MyFunc", "MyMuons", "RecoMuons", "nKids", "prodVtx", "nBrem", "vf_docker", "s1", "leak", "globalTrack", "isPFMuon", "element_pointer",
              "link_libraries", "Jets('AntiKt4')", "Muons('muons')", "Muons('slimmedMuons')"]


def _tags(text):
    return {w for w in _TAG_WORDS if w in text}


PROBE_TAGS = [_tags(t) for _, t in PROBES]


def _gen_refused():
    from vf.props import C09

    return st.sampled_from(list(BACKENDS)).flatmap(lambda be: C09.cases(be))


def _gen_valid():
    from vf.gen.query import Features, queries
    from vf.model.schema import standard_schema

    return st.sampled_from(list(BACKENDS)).flatmap(lambda be: queries(standard_schema(be), Features(), fuel_range=(1, 2)).map(lambda q, be=be: (be, q.text)))


GEN_REFUSED = _gen_refused()
GEN_VALID = _gen_valid()

# ---------------------------------------------------------------- child process


def _send(fd, obj):
    b = json.dumps(obj).encode()
    os.write(fd, struct.pack("<I", len(b)) + b)


def _recv(fd):
    hdr = b""
    while len(hdr) < 4:
        c = os.read(fd, 4 - len(hdr))
        if not c:
            return None
        hdr += c
    n = struct.unpack("<I", hdr)[0]
    buf = b""
    while len(buf) < n:
        c = os.read(fd, n - len(buf))
        if not c:
            return None
        buf += c
    return json.loads(buf.decode())


def _shared_ast(state, base_text, tail):
    """the query `tail` with BASE replaced by the ONE parsed object kept for base_text in this process"""
    import ast as _ast

    from vf.xlate import parse_query

    base = state.setdefault(("base", base_text), parse_query(base_text))

    class Sub(_ast.NodeTransformer):
        def visit_Name(self, node):
            return base if node.id == "BASE" else node

    return Sub().visit(parse_query(tail))


def _do_translate(state, backend, text, executor, bad_outdir, xmd, apply_only=False, shared=None, write_twice=False):
    import dataclasses
    import logging
    from pathlib import Path

    from vf.xlate import make_executor, parse_query

    @dataclasses.dataclass
    class VfDocker:
        image: str

    exe = state.get(("exe", backend)) if executor == "same" else None
    if exe is None:
        exe = make_executor(backend)
        state[("exe", backend)] = exe
        state[("reg", backend)] = False
    # the extended metadata type is the caller's configuration of an executor: registered once, when first needed
    if xmd and not state[("reg", backend)]:
        exe.add_extended_md({"vf_docker": VfDocker("default/image:0")})
        state[("reg", backend)] = True
    registered = state[("reg", backend)]
    out = tempfile.mkdtemp(prefix="vf_c07_")
    target = os.path.join(out, "missing", "dir") if bad_outdir else out
    msgs = []

    class H(logging.Handler):
        def emit(self, record):
            msgs.append(record.getMessage())

    h = H(level=logging.WARNING)
    logging.getLogger().addHandler(h)
    try:
        a = exe.apply_ast_transformations(parse_query(text) if shared is None else _shared_ast(state, shared[0], shared[1]))
        if apply_only:
            # the caller only wanted the transformed query (to hash it, say) and never writes a package for it
            return {"ok": True, "files": {}, "tree": None, "file": None, "warnings": [], "xmd": [], "registered": registered, "apply_only": True}
        info = exe.write_cpp_files(a, Path(target))
        if write_twice:
            # the caller writes the package of the same transformed query once more (into another directory, say): that second package is looked at
            target = os.path.join(out, "again")
            os.makedirs(target)
            msgs.clear()  # (what the first write logged is the first write's)
            info = exe.write_cpp_files(a, Path(target))
        files = {fn: open(os.path.join(target, fn)).read() for fn in info.all_filenames}
        found = [getattr(x, "image", None) for x in exe.extended_md("vf_docker")]
        return {"ok": True, "files": files, "tree": getattr(info.result_rep, "treename", None), "file": getattr(info.result_rep, "filename", None),
                "warnings": [m for m in msgs if "assuming" in m], "xmd": found, "registered": registered}
    except Exception as e:
        return {"ok": False, "exc": type(e).__name__, "msg": str(e)[:200], "registered": registered}
    finally:
        logging.getLogger().removeHandler(h)
        shutil.rmtree(out, ignore_errors=True)


def child_loop(rfd, wfd):
    state: Dict[Any, Any] = {}
    while True:
        msg = _recv(rfd)
        if msg is None or msg.get("cmd") == "quit":
            os._exit(0)
        try:
            res = _do_translate(state, msg["backend"], msg["text"], msg.get("executor", "new"), msg.get("bad_outdir", False), msg.get("xmd", False), msg.get("apply_only", False), msg.get("shared"), msg.get("write_twice", False))
        except BaseException:
            res = {"ok": False, "exc": "HARNESS", "msg": traceback.format_exc()[-400:]}
        _send(wfd, res)


class Child:
    def __init__(self):
        p2c_r, p2c_w = os.pipe()
        c2p_r, c2p_w = os.pipe()
        pid = os.fork()
        if pid == 0:
            os.close(p2c_w)
            os.close(c2p_r)
            try:
                child_loop(p2c_r, c2p_w)
            finally:
                os._exit(0)
        os.close(p2c_r)
        os.close(c2p_w)
        self.pid, self.w, self.r = pid, p2c_w, c2p_r

    def call(self, msg):
        _send(self.w, msg)
        r = _recv(self.r)
        if r is None:
            raise RuntimeError("child died")
        return r

    def close(self):
        try:
            _send(self.w, {"cmd": "quit"})
        except OSError:
            pass
        for fd in (self.w, self.r):
            try:
                os.close(fd)
            except OSError:
                pass
        try:
            os.waitpid(self.pid, 0)
        except ChildProcessError:
            pass


_baseline_cache: Dict[str, dict] = {}


def baseline(backend, text, xmd):
    k = jdump([backend, text, xmd])
    if k not in _baseline_cache:
        c = Child()
        try:
            _baseline_cache[k] = c.call({"backend": backend, "text": text, "executor": "new", "xmd": xmd})
        finally:
            c.close()
    return _baseline_cache[k]


def compare(base: dict, got: dict) -> Optional[str]:
    if base["ok"] != got["ok"]:
        return f"fresh process: {'package' if base['ok'] else base['exc'] + ': ' + base['msg'][:80]}; after the history: {'package' if got['ok'] else got['exc'] + ': ' + got['msg'][:80]}"
    if not base["ok"]:
        if base["exc"] != got["exc"]:
            return f"fresh process raises {base['exc']}, after the history {got['exc']}"
        return None
    d = compare_packages(base["files"], got["files"])
    if d:
        return "packages differ: " + d
    if (base["tree"], base["file"]) != (got["tree"], got["file"]):
        return f"descriptor differs: {(base['tree'], base['file'])} vs {(got['tree'], got['file'])}"
    if sorted(base["warnings"]) != sorted(got["warnings"]):
        return f"logged warnings differ: {base['warnings']} vs {got['warnings']}"
    if base["xmd"] != got["xmd"]:
        return f"extended metadata seen by the caller differs: {base['xmd']} vs {got['xmd']}"
    return None


# ---------------------------------------------------------------- the machine

_current: Dict[str, Any] = {}


class History(RuleBasedStateMachine):
    def __init__(self):
        super().__init__()
        self.child = Child()
        self.steps: List[dict] = []
        self.probes = 0
        _current["machine"] = self

    @rule(step=st.sampled_from([s_ for s_ in STEP_POOL if s_[0] in APPLY_ONLY_OK] + [s_ for s_ in STEP_POOL if "job-script" in s_[0]] * 3), executor=st.sampled_from(["new", "same", "same"]))
    def transform_only(self, step, executor):
        """apply_ast_transformations without write_cpp_files (the caller only wanted the transformed query).  Only steps that declare no method types /
        enums: those staying in the global tables after an apply without a write is the recorded finding apply-only-leaks-declared-types."""
        self.translate(step, executor, False, True)

    @rule(step=st.sampled_from(STEP_POOL), executor=st.sampled_from(["new", "same", "same"]), bad_outdir=st.integers(0, 5).map(lambda x: x == 0))
    def translate(self, step, executor, bad_outdir, apply_only=False):
        label, backend, text, declares, fails = step
        xmd = label.startswith("extended-md")
        r = self.child.call({"backend": backend, "text": text, "executor": executor, "bad_outdir": bad_outdir, "xmd": xmd, "apply_only": apply_only})
        if apply_only:
            label = label + "(apply only)"
        if r.get("exc") == "HARNESS":
            raise RuntimeError("harness failure in child: " + r["msg"])
        self.steps.append({"label": label, "backend": backend, "text": text, "executor": executor, "bad_outdir": bad_outdir, "xmd": xmd, "declares": declares,
                           "failed": not r["ok"], "apply_only": apply_only})

    @rule(c=GEN_REFUSED, executor=st.sampled_from(["new", "same", "same"]))
    def translate_generated_refused(self, c, executor):
        """a generated query with one unsupported construct grafted in (C09's catalogue): every refusal path of the translator"""
        if c.get("text") is None:
            return
        r = self.child.call({"backend": c["backend"], "text": c["text"], "executor": executor, "bad_outdir": False, "xmd": False})
        if r.get("exc") == "HARNESS":
            raise RuntimeError("harness failure in child: " + r["msg"])
        self.steps.append({"label": "generated-refused:" + c["kind"], "backend": c["backend"], "text": c["text"], "executor": executor, "bad_outdir": False, "xmd": False,
                           "declares": True, "failed": not r["ok"]})

    @rule(c=GEN_VALID, executor=st.sampled_from(["new", "same", "same"]))
    def translate_generated(self, c, executor):
        """a generated valid query (the query generator of C01) carrying the standard type declarations"""
        backend, text = c
        r = self.child.call({"backend": backend, "text": text, "executor": executor, "bad_outdir": False, "xmd": False})
        if r.get("exc") == "HARNESS":
            raise RuntimeError("harness failure in child: " + r["msg"])
        self.steps.append({"label": "generated-valid", "backend": backend, "text": text, "executor": executor, "bad_outdir": False, "xmd": False, "declares": True, "failed": not r["ok"]})

    @rule(sh=st.sampled_from(SHARED), ti=st.integers(0, 2), executor=st.sampled_from(["new", "same"]))
    def translate_shared(self, sh, ti, executor):
        """a query that shares its base stream's AST object with every other query derived from that base in this process; each such translation is
        a probe as well: it is compared with the same query text in a pristine process"""
        backend, base_text, tails = sh
        tail = tails[ti % len(tails)]
        text = tail.replace("BASE", base_text)
        got = self.child.call({"backend": backend, "text": text, "executor": executor, "shared": [base_text, tail]})
        if got.get("exc") == "HARNESS":
            raise RuntimeError("harness failure in child: " + got["msg"])
        base = baseline(backend, text, got.get("registered", False))
        earlier = sum(1 for s in self.steps if s.get("shared_base") == base_text)
        stats: Stats = _current["stats"]
        stats.case(jdump([self.steps, "shared", text, executor]), earlier >= 1, [f"history_len={len(self.steps)}", "shared-base-object", f"earlier_uses_of_base={min(earlier, 3)}", "backend=" + backend],
                   {"history": [s["label"] + "@" + s["executor"] for s in self.steps], "probe": "shared base object: " + tail, "probe_backend": backend})
        d = compare(base, got)
        self.steps.append({"label": "shared-base:" + tail[:40], "backend": backend, "text": text, "executor": executor, "bad_outdir": False, "xmd": False, "declares": True,
                           "failed": not got["ok"], "shared": [base_text, tail], "shared_base": base_text})
        if d:
            hist = self.steps[:-1]
            key = "shared-ast-" + ("first-use" if earlier == 0 else "reused")
            sup = _current.get("suppressed", {})
            if key in sup:
                sup[key] += 1
                return
            raise Violation(key, f"query {tail!r} over a base stream object used {earlier} time(s) before in this process, on {backend}: {d}",
                            {"history": hist, "probe": {"backend": backend, "text": text, "executor": executor, "xmd": False, "shared": [base_text, tail]}})

    @rule(probe=st.sampled_from([p_ for p_ in PROBES if "vf_docker" not in p_[1]] + [("atlas", q(A_PT2, [JET_INT])), ("atlas", q(A_PT, [SCRIPT])), ("atlas", q(A_PT, [BLOCK])),
                                 ("atlas", q(A_ENUM, [ENUM])), ("cms_aod", q(C_PT, [MU_INT])), ("atlas", q(A_PT2, [JET_INT, BLOCK, SCRIPT]))]),
          executor=st.sampled_from(["new", "same"]))
    def write_again(self, probe, executor):
        """one transformed query written twice in a row (a retry, a second output directory); the SECOND package is compared with the pristine one -
        also for queries whose metadata declares things (method types, enums, code blocks, job scripts): they belong to the query, not to the
        executor's state between an apply and the first write"""
        backend, text = probe
        got = self.child.call({"backend": backend, "text": text, "executor": executor, "write_twice": True})
        if got.get("exc") == "HARNESS":
            raise RuntimeError("harness failure in child: " + got["msg"])
        base = baseline(backend, text, got.get("registered", False))
        stats: Stats = _current["stats"]
        stats.case(jdump([self.steps, "write-again", text, executor]), True, [f"history_len={len(self.steps)}", "second-write-of-one-transformed-query", "backend=" + backend],
                   {"history": [s["label"] + "@" + s["executor"] for s in self.steps], "probe": "written twice: " + text[-100:], "probe_backend": backend})
        d = compare(base, got)
        self.steps.append({"label": "written-twice", "backend": backend, "text": text, "executor": executor, "bad_outdir": False, "xmd": False, "declares": False,
                           "failed": not got["ok"], "write_twice": True})
        if d:
            sup = _current.get("suppressed", {})
            if "second-write" in sup:
                sup["second-write"] += 1
                return
            raise Violation("second-write", f"the second write of one transformed query ({text[-80:]!r}, {backend}) gives another package than the first: {d}",
                            {"history": self.steps[:-1], "probe": {"backend": backend, "text": text, "executor": executor, "xmd": False, "write_twice": True}})

    @precondition(lambda self: len(self.steps) >= 1)
    @rule(probe=st.sampled_from(PROBES), executor=st.sampled_from(["new", "same"]), related=st.integers(0, 1999))
    def probe(self, probe, executor, related):
        if related % 2 == 0:
            # a probe that mentions something an earlier step mentions (if there is one)
            seen = set()
            for s_ in self.steps:
                seen |= _tags(s_["text"])
            cands = [p for p, tg in zip(PROBES, PROBE_TAGS) if tg & seen]
            if cands:
                probe = cands[(related // 2) % len(cands)]
        backend, text = probe
        xmd = "vf_docker" in text and not text.endswith(" ")
        got = self.child.call({"backend": backend, "text": text, "executor": executor, "xmd": xmd})
        if got.get("exc") == "HARNESS":
            raise RuntimeError("harness failure in child: " + got["msg"])
        # the fresh process configures its executor as the one used here is configured
        base = baseline(backend, text, got.get("registered", xmd))
        self.probes += 1
        stats: Stats = _current["stats"]
        nt = len(self.steps) >= 2 and any(s["declares"] for s in self.steps) and any(s["failed"] for s in self.steps)
        labels = [f"history_len={len(self.steps)}", "probe_executor=" + executor, "probe_outcome=" + ("package" if base["ok"] else "raises")]
        if any(s["failed"] for s in self.steps):
            labels.append("history-has-failure")
        if any(s["executor"] == "same" for s in self.steps):
            labels.append("history-reuses-executor")
        for s in self.steps:
            labels.append("step=" + s["label"])
        stats.case(jdump([self.steps, probe, executor]), nt, sorted(set(labels)),
                   {"history": [f"{s['label']}@{s['executor']}{'(unwritable dir)' if s['bad_outdir'] else ''}{' FAILED' if s['failed'] else ''}" for s in self.steps],
                    "probe": text[-120:], "probe_backend": backend})
        d = compare(base, got)
        # the probe is itself a translation and becomes part of the history
        self.steps.append({"label": "probe", "backend": backend, "text": text, "executor": executor, "bad_outdir": False, "xmd": xmd, "declares": False, "failed": not got["ok"]})
        if d:
            hist = self.steps[:-1]
            culprit = [s["label"] for s in hist if s["declares"]]
            key = "leak-" + (("after-failure" if any(s["failed"] for s in hist) else "after-success") + ("-same-executor" if executor == "same" else "-new-executor"))
            sup = _current.get("suppressed", {})
            if key in sup:
                sup[key] += 1
                return
            raise Violation(key, f"probe {text[-90:]!r} on {backend}: {d} (history: {[s['label'] + '@' + s['executor'] for s in hist]})",
                            {"history": hist, "probe": {"backend": backend, "text": text, "executor": executor, "xmd": xmd}})

    def teardown(self):
        self.child.close()


def worker(payload):
    seed, n, deadline, steps, shrink = payload
    stats = Stats()
    _current["stats"] = stats
    suppressed: Dict[str, int] = {}
    _current["suppressed"] = suppressed
    remaining = n
    rnd = 0
    while remaining > 0 and rnd < 5:
        st_ = settings(max_examples=remaining, stateful_step_count=steps, database=None, deadline=None, derandomize=False, report_multiple_bugs=False,
                       suppress_health_check=list(HealthCheck), print_blob=False, verbosity=hypothesis.Verbosity.quiet,
                       phases=[Phase.generate, Phase.target] + ([Phase.shrink] if shrink else []))
        before = stats.evaluations
        try:
            run_state_machine_as_test(hypothesis.seed(derive_seed(seed, rnd))(History), settings=st_)
            remaining = 0
        except Violation as v:
            stats.violation(v.key, v.what, v.replay)
            suppressed[v.key] = 0
            remaining -= max(1, (stats.evaluations - before) // 3)
        finally:
            m = _current.get("machine")
            if m is not None:
                try:
                    m.child.close()
                except Exception:
                    pass
        rnd += 1
    for k, c in suppressed.items():
        if c:
            stats.excluded["repeat-of-" + k] += c
    return stats


def run(ctx: Ctx):
    ctx.rule = RULE
    ctx.assumptions = ["'fresh process' = a process that imported the package and never translated (forked from the pristine runner)",
                       "step and probe queries come from a fixed pool that declares every kind of remembered state; Hypothesis draws the histories"]
    total = ctx.n(960, 16000)
    shards = 16
    payloads = [(derive_seed(ctx.seed, "C07", i), max(1, total // shards), ctx.deadline, 10 if ctx.quick else 14, not ctx.quick) for i in range(shards)]
    for st_ in run_shards("vf.props.C07", "worker", payloads):
        ctx.stats.merge(st_)


def replay(case):
    c = Child()
    try:
        for s in case["history"]:
            c.call({"backend": s["backend"], "text": s["text"], "executor": s["executor"], "bad_outdir": s.get("bad_outdir", False), "xmd": s.get("xmd", False),
                    "apply_only": s.get("apply_only", False), "shared": s.get("shared"), "write_twice": s.get("write_twice", False)})
        p = case["probe"]
        got = c.call({"backend": p["backend"], "text": p["text"], "executor": p["executor"], "xmd": p.get("xmd", False), "shared": p.get("shared"), "write_twice": p.get("write_twice", False)})
    finally:
        c.close()
    base = baseline(p["backend"], p["text"], got.get("registered", p.get("xmd", False)))
    d = compare(base, got)
    return [{"key": "leak", "what": d}] if d else []
