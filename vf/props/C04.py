"""C04 - faults are equivalent: loud on empty First / bad index, never spurious.

Generated: columns built from partial operations (First after Where, index into collection-valued
methods, calls through nullable links) placed under generated guards - and/or short-circuit,
conditional expressions, Where filters, isNonnull on CMS - both sufficient, insufficient and absent;
events rich in empty collections, collections shorter than the index, null links.
Oracle: engine A with outcome rows|fault per event: the job must fault exactly where the query is
undefined (bounded by the most eager / laziest evaluation orders), produce exactly the reference rows
elsewhere, and call no method on a null link that the reference does not call."""
from __future__ import annotations

from hypothesis import strategies as st

from vf import cxx, enginea
from vf.core import Ctx, Discard, Stats, Violation, derive_seed, hyp_search, jdump, run_shards
from vf.gen.query import dataset_text
from vf.model.events import Event, events_strategy
from vf.model.schema import standard_schema
from vf.ref import linq
from vf.xlate import BACKENDS

RULE = (
    "case = (back end, row level, 1-3 columns drawn from guard templates: First()/index/nullable-link access under and / or / conditional / "
    "Where / isNonnull guards that are sufficient, insufficient (off by one) or absent; 5-8 events with many empty and short collections and "
    "null links). non-trivial = some event where a guard is the only thing preventing a fault (the query with that guard replaced by True "
    "faults there, the original does not) AND some event on which the query faults; distinct by query text."
)

PROFILE = {
    "atlas": dict(flat3=("constituents", "hitChi2s"), coll=("Jets", ["AntiKt4", "AK10"]), num=["pt", "eta", "nTrk"], vec=["weights", "sumPt"], sub=("constituents", ["pt", "d0", "nHits"]),
                  link=("parent", ["pt", "eta"]), nonnull=False, other=("Tracks", ["InDetTracks"], ["pt", "d0"])),
    "cms_aod": dict(coll=("Muons", ["muons", "muonsFromCosmics"]), num=["pt", "eta", "nSeg"], vec=["chi2s", "segments"], sub=None,
                    link=("globalTrack", ["pt", "eta"]), nonnull=True, other=("Tracks", ["generalTracks"], ["pt", "eta"])),
    "cms_miniaod": dict(coll=("Muons", ["slimmedMuons", "otherMuons"]), num=["pt", "eta", "nSeg"], vec=["chi2s", "segments"], sub=None,
                        link=("globalTrack", ["pt", "eta"]), nonnull=True, other=("Vertex", ["offlineSlimmedPrimaryVertices"], ["z", "ndof"])),
}


class G:
    def __init__(self, draw, backend):
        self.d = draw
        self.p = PROFILE[backend]
        self.uses = []
        self.labels = set()
        self.want = None  # None | "guarded" | "unguarded": steer the next template's guard kind

    def guard(self, kinds):
        unguarded = [k for k in kinds if k in ("none", "ifexp-insufficient", "ifexp-offbyone")]
        guarded = [k for k in kinds if k not in unguarded]
        if self.want == "guarded" and guarded:
            return self.pick(guarded)
        if self.want == "unguarded" and unguarded:
            return self.pick(unguarded)
        return self.pick(kinds)

    def pick(self, xs):
        return self.d(st.sampled_from(list(xs)))

    def const(self):
        return self.pick(["0", "1.5", "-2", "10", "0.25"])

    def seq(self, ev, main_only=False):
        """an object sequence at event level: (text, methods)"""
        if not main_only and self.d(st.integers(0, 3)) == 0:
            acc, banks, ms = self.p["other"]
        else:
            acc, banks = self.p["coll"]
            ms = self.p["num"]
        b = self.pick(banks)
        self.uses.append((acc, b))
        t = f"{ev}.{acc}({b!r})"
        if self.d(st.integers(0, 2)) == 0:
            m = self.pick(ms)
            t = f"{t}.Where(lambda w: w.{m}() > {self.const()})"
            self.labels.add("Where-then-partial")
        return t, ms

    # each template returns (guarded_text, text_with_guard_replaced_by_True or None)
    def first_template(self, ev):
        s, ms = self.seq(ev)
        m = self.pick(ms)
        how = self.d(st.integers(0, 6))
        flat3 = self.p.get("flat3")
        if how == 5 and flat3 and ms is self.p["num"]:
            # First() of a sequence flattened over three loops: its first-time flag and its empty-sequence test belong outside the outermost one
            val = f"{s}.SelectMany(lambda f: f.{flat3[0]}()).SelectMany(lambda g: g.{flat3[1]}()).First()"
            self.labels.add("First-over-three-loop-flattening")
        elif how == 6:
            # one lambda invoked twice around the partial operation: each invocation takes its own first element (and faults on its own empty sequence)
            s2, ms2 = self.seq(ev)
            m2 = self.pick([x for x in ms if x in ms2] or ms2)
            if m2 in ms:
                val = f"(lambda lead: lead({s}) + lead({s2}))(lambda fs: fs.Count() + fs.Select(lambda f: f.{m2}()).First())"
                self.labels.add("First-in-lambda-invoked-twice")
            else:
                val = f"{s}.First().{m}()"
        elif how <= 1 or how >= 5:
            val = f"{s}.First().{m}()"
        elif how == 2:
            val = f"{s}.Select(lambda f: f.{m}() * 2).First()"
        else:
            # the value does not depend on the element: First() must still be undefined on an empty (filtered) sequence
            acc2, banks2 = self.p["coll"]
            b2 = self.pick(banks2)
            self.uses.append((acc2, b2))
            val = f"{s}.Select(lambda f: {self.const()}).First()" if how == 3 else f"{s}.Select(lambda f: {ev}.{acc2}({b2!r}).Count()).First()"
            self.labels.add("First-of-element-independent-value")
        g = self.guard(["none", "ifexp", "ifexp-else", "and", "or", "ifexp-insufficient", "ifexp-nested", "none"])
        self.labels.add("First:" + g)
        c = self.const()
        if g == "none":
            return val, None
        if g == "ifexp":
            return f"({val} if {s}.Count() > 0 else {c})", f"({val} if True else {c})"
        if g == "ifexp-else":
            # the guarded operation sits in the ELSE arm
            return f"({c} if {s}.Count() == 0 else {val})", f"({c} if False else {val})"
        if g == "ifexp-nested":
            return f"({c} if {s}.Count() == 0 else ({val} if {s}.Count() < 3 else {val} * 2))", f"({c} if False else ({val} if {s}.Count() < 3 else {val} * 2))"
        if g == "ifexp-insufficient":
            # guard looks at a different (unfiltered / other) sequence: may still fault
            s2, _ = self.seq(ev)
            return f"({val} if {s2}.Count() > 0 else {c})", f"({val} if True else {c})"
        if g == "and":
            return f"({s}.Count() > 0 and {val} > {c})", f"(True and {val} > {c})"
        return f"({s}.Count() == 0 or {val} > {c})", f"(False or {val} > {c})"

    def index_template(self, obj):
        if not self.p["vec"]:
            return None
        v = self.pick(self.p["vec"])
        k = self.pick([0, 0, 1, 2])
        val = f"{obj}.{v}()[{k}]"
        g = self.guard(["none", "ifexp", "ifexp-else", "and", "or", "ifexp-offbyone", "none"])
        self.labels.add("index:" + g)
        c = self.const()
        if g == "none":
            return val, None
        if g == "ifexp":
            return f"({val} if {obj}.{v}().Count() > {k} else {c})", f"({val} if True else {c})"
        if g == "ifexp-else":
            return f"({c} if {obj}.{v}().Count() <= {k} else {val})", f"({c} if False else {val})"
        if g == "or":
            return f"({obj}.{v}().Count() <= {k} or {val} > {c})", f"(False or {val} > {c})"
        if g == "ifexp-offbyone":
            return f"({val} if {obj}.{v}().Count() >= {k} else {c})", f"({val} if True else {c})"
        return f"({obj}.{v}().Count() > {k} and {val} > {c})", f"(True and {val} > {c})"

    def vec_first_template(self, obj):
        """First() taken directly on a vector-valued method of the loop object (a collection, not a Select / Where sequence), value used raw"""
        if not self.p["vec"]:
            return None
        v = self.pick(self.p["vec"])
        val = f"{obj}.{v}().First()"
        g = self.guard(["none", "ifexp", "ifexp-else", "and", "or", "ifexp"])
        self.labels.add("vec-First:" + g)
        c = self.const()
        if g == "none":
            return val, None
        if g == "ifexp":
            return f"({val} if {obj}.{v}().Count() > 0 else {c})", f"({val} if True else {c})"
        if g == "ifexp-else":
            return f"({c} if {obj}.{v}().Count() == 0 else {val})", f"({c} if False else {val})"
        if g == "or":
            return f"({obj}.{v}().Count() == 0 or {val} > {c})", f"(False or {val} > {c})"
        return f"({obj}.{v}().Count() > 0 and {val} > {c})", f"(True and {val} > {c})"

    def link_template(self, obj):
        l, ms = self.p["link"]
        m = self.pick(ms)
        val = f"{obj}.{l}().{m}()"
        if not self.p["nonnull"]:
            self.labels.add("link:unguarded")
            return val, None
        g = self.guard(["none", "ifexp", "ifexp-else", "and", "or"])
        self.labels.add("link:" + g)
        c = self.const()
        if g == "none":
            return val, None
        if g == "ifexp":
            return f"({val} if isNonnull({obj}.{l}()) else {c})", f"({val} if True else {c})"
        if g == "ifexp-else":
            return f"({c} if (not isNonnull({obj}.{l}())) else {val})", f"({c} if False else {val})"
        if g == "and":
            return f"(isNonnull({obj}.{l}()) and {val} > {c})", f"(True and {val} > {c})"
        return f"((not isNonnull({obj}.{l}())) or {val} > {c})", f"(False or {val} > {c})"

    def sub_first_template(self, obj):
        if not self.p["sub"]:
            return None
        sm, ms = self.p["sub"]
        m = self.pick(ms)
        s = f"{obj}.{sm}()"
        if self.d(st.booleans()):
            s = f"{s}.Where(lambda t: t.{self.pick(ms)}() > {self.const()})"
        val = f"{s}.First().{m}()"
        if self.d(st.integers(0, 2)) == 0:
            # the value comes from the enclosing loop only
            val = f"{s}.Select(lambda t: {obj}.{self.pick(self.p['num'])}()).First()"
            self.labels.add("First-of-element-independent-value")
        g = self.guard(["none", "ifexp", "ifexp-else", "and", "or"])
        self.labels.add("sub-First:" + g)
        c = self.const()
        if g == "none":
            return val, None
        if g == "ifexp":
            return f"({val} if {s}.Count() > 0 else {c})", f"({val} if True else {c})"
        if g == "ifexp-else":
            return f"({c} if {s}.Count() == 0 else {val})", f"({c} if False else {val})"
        if g == "or":
            return f"({s}.Count() == 0 or {val} > {c})", f"(False or {val} > {c})"
        return f"({s}.Count() > 0 and {val} > {c})", f"(True and {val} > {c})"

    def firstseq_template(self, ev):
        """First() of a sequence of FILTERED sequences, continued by a Select / Where: what follows the First() works on the elements the inner
        filter let through only (the inner Where is the guard of the partial operation that follows)"""
        s, _ = self.seq(ev)
        acc, banks = self.p["coll"]
        b = self.pick(banks)
        self.uses.append((acc, b))
        inner = f"{ev}.{acc}({b!r})"
        c = self.const()
        if self.p["nonnull"] and self.d(st.booleans()):
            l, ms = self.p["link"]
            guard, part = f"isNonnull(k.{l}())", f"k.{l}().{self.pick(ms)}()"
        else:
            v = self.pick(self.p["vec"])
            kk = self.pick([0, 0, 1])
            guard, part = f"k.{v}().Count() > {kk}", self.pick([f"k.{v}()[{kk}]", f"k.{v}()[{kk}]", f"k.{v}().First()"])
        cont = self.pick([f".Select(lambda k: {part})", f".Select(lambda k: {part})", f".Where(lambda k: {part} > {c}).Select(lambda k: k.{self.pick(self.p['num'])}())",
                          f".Select(lambda k: {part} * 2).Where(lambda q: q > {c})"])
        self.labels.add("First-of-filtered-sequences-continued")
        mk = lambda g_: f"{s}.Select(lambda j: {inner}.Where(lambda k: {g_})).First(){cont}"
        return mk(guard), mk("True")

    def cross_first_template(self, obj, ev="e"):
        """First() over another event collection (usually filtered) inside the loop over the main one; the value may come from the outer element only"""
        acc, banks, ms = self.p["other"]
        b = self.pick(banks)
        self.uses.append((acc, b))
        s = f"{ev}.{acc}({b!r})"
        if self.d(st.integers(0, 3)) > 0:
            s = f"{s}.Where(lambda t: t.{self.pick(ms)}() > {self.const()})"
            self.labels.add("Where-then-partial")
        n = self.pick(self.p["num"])
        val = self.pick([f"{s}.Select(lambda t: {obj}.{n}()).First()", f"{s}.Select(lambda t: {obj}.{n}()).First()", f"{s}.Select(lambda t: t.{self.pick(ms)}() + {obj}.{n}()).First()"])
        g = self.guard(["none", "ifexp", "and", "none"])
        self.labels.add("cross-First:" + g)
        c = self.const()
        if g == "none":
            return val, None
        if g == "ifexp":
            return f"({val} if {s}.Count() > 0 else {c})", f"({val} if True else {c})"
        return f"({s}.Count() > 0 and {val} > {c})", f"(True and {val} > {c})"


@st.composite
def cases(draw, backend):
    sch = standard_schema(backend)
    g = G(draw, backend)
    ds = dataset_text(sch)
    level = draw(st.sampled_from(["event", "object", "object-where", "event-where", "plumbed"]))
    if level == "plumbed":
        # the sequence is computed by a first Select and handed to a second lambda: guard and partial operation then share ONE sequence node
        sq, ms = g.seq("e")
        seqtext = f"{sq}.Select(lambda f: f.{g.pick(ms)}())"
        cols = []
        for ci in range(draw(st.integers(1, 2))):
            g.want = ["guarded", "unguarded", None][draw(st.integers(0, 2))]
            gk = g.guard(["none", "ifexp", "ifexp-else", "and", "or", "ifexp"])
            g.labels.add("plumbed-First:" + gk)
            c0 = g.const()
            val = "p.First()"
            if gk == "none":
                cols.append((val, None))
            elif gk == "ifexp":
                cols.append((f"({val} if p.Count() > 0 else {c0})", f"({val} if True else {c0})"))
            elif gk == "ifexp-else":
                cols.append((f"({c0} if p.Count() == 0 else {val})", f"({c0} if False else {val})"))
            elif gk == "and":
                cols.append((f"(p.Count() > 0 and {val} > {c0})", f"(True and {val} > {c0})"))
            else:
                cols.append((f"(p.Count() == 0 or {val} > {c0})", f"(False or {val} > {c0})"))
        body = lambda xs: "(" + ", ".join(xs) + ("," if len(xs) == 1 else "") + ")"
        text = f"Select(Select({ds}, lambda e: {seqtext}), lambda p: {body([c[0] for c in cols])})"
        variant = f"Select(Select({ds}, lambda e: {seqtext}), lambda p: {body([c[1] or c[0] for c in cols])})"
        evs = draw(events_strategy(sch, g.uses, n_min=5, n_max=8, null_links=True))
        return {"backend": backend, "text": text, "variant": variant if variant != text else None, "evs": evs, "labels": sorted(g.labels) + ["level=" + level]}
    ncols = draw(st.integers(1, 3))
    cols = []
    ncols = max(ncols, 2) if draw(st.integers(0, 3)) > 0 else ncols
    wants = ["guarded", "unguarded"] + [None] * 3 if ncols >= 2 else [None]
    if level.startswith("event"):
        for ci in range(ncols):
            g.want = wants[ci]
            k = draw(st.sampled_from(["first", "first", "inner", "inner", "firstseq"]))
            if k == "first":
                cols.append(g.first_template("e"))
            elif k == "firstseq":
                cols.append(g.firstseq_template("e"))
            else:
                # a 1-D column of per-object partial values, possibly guarded by a Where
                s, ms = g.seq("e", main_only=True)
                t = draw(st.sampled_from(["index", "link", "subfirst", "crossfirst", "vecfirst"]))
                r = {"index": g.index_template, "link": g.link_template, "subfirst": g.sub_first_template, "crossfirst": g.cross_first_template, "vecfirst": g.vec_first_template}[t]("o")
                if r is None:
                    r = g.link_template("o")
                cols.append((f"{s}.Select(lambda o: {r[0]})", None if r[1] is None else f"{s}.Select(lambda o: {r[1]})"))
        body = lambda xs: "(" + ", ".join(xs) + ("," if len(xs) == 1 else "") + ")"
        src = ds
        src_t = ds
        if level == "event-where":
            acc, banks = g.p["coll"]
            b = g.pick(banks)
            g.uses.append((acc, b))
            src = f"Where({ds}, lambda e: e.{acc}({b!r}).Count() > {draw(st.sampled_from([0, 1]))})"
            src_t = f"Where({ds}, lambda e: True)"
            g.labels.add("guard:event-Where")
        text = f"Select({src}, lambda e: {body([c[0] for c in cols])})"
        variant = f"Select({src_t}, lambda e: {body([c[1] or c[0] for c in cols])})"
    else:
        acc, banks = g.p["coll"]
        b = g.pick(banks)
        g.uses.append((acc, b))
        outer = f"e.{acc}({b!r})"
        outer_t = outer
        if level == "object-where" and g.p["vec"] and not (g.p["nonnull"] and draw(st.booleans())):
            v = g.pick(g.p["vec"])
            k = draw(st.sampled_from([0, 1]))
            outer = f"e.{acc}({b!r}).Where(lambda o: o.{v}().Count() > {k})"
            g.labels.add("guard:object-Where")
            cols.append((f"j.{v}()[{k}]", None))
        elif level == "object-where" and g.p["nonnull"]:
            l, ms = g.p["link"]
            outer = f"e.{acc}({b!r}).Where(lambda o: isNonnull(o.{l}()))"
            g.labels.add("guard:object-Where")
            cols.append((f"j.{l}().{g.pick(ms)}()", None))
        for ci in range(ncols):
            g.want = wants[ci]
            t = draw(st.sampled_from(["index", "link", "subfirst", "link", "subfirst", "index", "vecfirst"]))
            r = {"index": g.index_template, "link": g.link_template, "subfirst": g.sub_first_template, "vecfirst": g.vec_first_template}[t]("j")
            if r is None:
                r = g.link_template("j")
            cols.append(r)
        body = lambda xs: "(" + ", ".join(xs) + ("," if len(xs) == 1 else "") + ")"
        text = f"Select(SelectMany({ds}, lambda e: {outer}), lambda j: {body([c[0] for c in cols])})"
        variant = f"Select(SelectMany({ds}, lambda e: {outer_t}), lambda j: {body([c[1] or c[0] for c in cols])})"
    evs = draw(events_strategy(sch, g.uses, n_min=5, n_max=8, null_links=True))
    return {"backend": backend, "text": text, "variant": variant if variant != text else None, "evs": evs, "labels": sorted(g.labels) + ["level=" + level]}


def outcome_kind(r):
    for k in ("rows", "fault", "status_failure", "undefined"):
        if k in r:
            return k
    return "?"


def check(c):
    backend, text, evs = c["backend"], c["text"], c["evs"]
    sch = standard_schema(backend)
    rep = {"backend": backend, "query": text, "variant": c.get("variant"), "events": [e.to_json() for e in evs]}
    r = enginea.execute(text, backend, evs, cxx.std_model(backend))
    if r.stage == "rejected":
        raise Discard("rejected: " + r.error.split(":")[0])
    if r.stage != "ok":
        raise Violation(r.stage, f"{r.stage}: {r.error}", rep)
    ref = linq.evaluate(text, sch, evs)
    for k, (rf, ob) in enumerate(zip(ref, r.out["events"])):
        m = enginea.compare_event(rf, ob)
        if m:
            key = "missed-fault" if m.startswith("reference faults") else ("spurious-fault" if m.startswith("job faulted") else "wrong-rows")
            raise Violation(key, f"event {k + 1}: {m}", rep)
        extra = set(ob["nullderefs"]) - set(rf["eager"]["nullderefs"])
        if extra:
            raise Violation("null-link-dereferenced", f"event {k + 1}: the job called {sorted(extra)} on a null link; the query does not", rep)
    return ref


def case_key(c):
    return jdump([c["text"], [e.to_json() for e in c["evs"]]])


def worker(payload):
    seed, n, deadline, backend = payload
    stats = Stats()
    sch = standard_schema(backend)

    def body(c):
        ref = check(c)
        faults = sum(1 for r in ref if "fault" in r["eager"])
        essential = 0
        if c["variant"]:
            try:
                vref = linq.evaluate(c["variant"], sch, c["evs"])
                essential = sum(1 for a, b in zip(ref, vref) if "rows" in a["need"] and ("fault" in b["need"] or b["need"].get("nullderefs") != a["need"].get("nullderefs")))
            except Exception:
                essential = 0
        amb = any(not r["agree"] for r in ref)
        labels = c["labels"] + [f"backend={c['backend']}"] + (["some-event-faults"] if faults else []) + (["guard-essential"] if essential else []) + (["orders-disagree"] if amb else [])
        stats.case(c["text"], bool(faults and essential), labels,
                   {"backend": c["backend"], "query": c["text"][-380:], "outcomes": [outcome_kind(r["eager"]) for r in ref], "events_where_guard_is_essential": essential})

    hyp_search(body, cases(backend), max_examples=n, seed=seed, stats=stats, deadline=deadline, key_fn=case_key, shrink_budget=60)
    return stats


def run(ctx: Ctx):
    ctx.rule = RULE
    ctx.assumptions = ["faults other than empty First / index past the end are not generated", "null links are poison objects in the model: a call on one is logged, not a crash",
                       "where evaluation orders disagree the job may fault iff the most eager order faults and may yield rows iff call-by-need does"]
    for be in BACKENDS:
        cxx.std_model(be)
    total = ctx.n(400, 4800)
    shards = 16
    payloads = [(derive_seed(ctx.seed, "C04", i), max(1, total // shards), ctx.deadline, BACKENDS[i % 3]) for i in range(shards)]
    for st_ in run_shards("vf.props.C04", "worker", payloads):
        ctx.stats.merge(st_)


def replay(case):
    c = {"backend": case["backend"], "text": case["query"], "variant": case.get("variant"), "evs": [Event.from_json(j) for j in case["events"]]}
    try:
        check(c)
    except Violation as v:
        return [{"key": v.key, "what": v.what}]
    except Discard:
        return []
    return []
