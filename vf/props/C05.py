"""C05 - rows for an event depend on that event only (reference-free, metamorphic on one compiled job).

One generated query is translated and compiled once; the same binary then processes the same events
under several schedules (identity, permutations, every event alone in a fresh process, the list split
over two processes, the list concatenated with itself).  rows(event k) must be identical everywhere."""
from __future__ import annotations

import os

from hypothesis import strategies as st

from vf import cxx
from vf.core import Ctx, Discard, Stats, Violation, derive_seed, hyp_search, jdump, run_shards
from vf.gen.query import Features, queries
from vf.model.events import Event, events_strategy, write_events
from vf.model.schema import standard_schema
from vf.xlate import BACKENDS, translate

RULE = (
    "case = (back end, generated query biased to state-carrying constructs: vector / 2-D columns, accumulators, event-level "
    "Where, Range; 5-8 generated events; drawn schedules: 2 permutations, each event alone in a fresh process, a split into two "
    "processes, the list twice in one process). Oracle: what an event does (its rows, or ending the job where the query is undefined on it) is the same in every schedule as alone in a fresh process. non-trivial = >=3 events "
    "with pairwise different rows AND the emitted code has a vector column, accumulator or first-flag AND >=2 non-identity schedules; "
    "distinct by query text."
)


def features():
    # First() is generated
    return Features(first=True, index=False, nullable=False)


def case_strategy(backend):
    sch = standard_schema(backend)
    from vf.gen.metadata import simple_cpp_functions

    fmd, funcs, _ = simple_cpp_functions()
    # an opaque user C++ function that keeps its OWN state would be the user's business; ours are pure, so any
    # schedule dependence still comes from the translator
    @st.composite
    def partial_cases(draw):
        """a row with vector columns and a First() that is undefined on some events (C04's templates): such an event ends the job, and
        nothing it had pushed may show up in the rows of the events that follow in a new job - nor may it silently be skipped"""
        from vf.props.C04 import G
        from vf.gen.query import Query, dataset_text

        g = G(draw, backend)
        cols = []
        for _ in range(draw(st.integers(1, 2))):
            sq, ms = g.seq("e", main_only=True)
            m = draw(st.sampled_from(ms))
            cols.append(draw(st.sampled_from([f"{sq}.Select(lambda v: v.{m}())", f"{sq}.Select(lambda v: v.{m}())", f"{sq}.Count()", f"{sq}.Select(lambda v: v.{m}()).Sum()"])))
        # a single event object (EventInfo): fetched again for every event, also when it is used inside a loop
        for sing in [c for c in sch.colls if c.singleton]:
            nm = [m for m in sch.classes[sing.element].methods if m.kind == "num" and not m.enum]
            if nm and draw(st.booleans()):
                g.uses.append((sing.accessor, sing.banks[0]))
                one = f"e.{sing.accessor}({sing.banks[0]!r}).{draw(st.sampled_from(nm)).name}()"
                if draw(st.booleans()):
                    cols.append(one)
                else:
                    sq2, ms2 = g.seq("e", main_only=True)
                    cols.append(f"{sq2}.Select(lambda v: v.{draw(st.sampled_from(ms2))}() + {one})")
        g.want = draw(st.sampled_from(["unguarded", "unguarded", None, "guarded", "guarded"]))
        first = g.first_template("e")[0]
        if draw(st.booleans()):
            # ... as the LEFT operand of further arithmetic: what follows the partial operation in the same column has to be coded where the
            # column is complete, not where the partial operation left the translator
            first = f"({first} {draw(st.sampled_from(['/ 1000.0', '* 2 + 1', '- 0.5']))})"
        cols.insert(draw(st.integers(0, len(cols))), first)
        text = f"Select({dataset_text(sch)}, lambda e: ({', '.join(cols)}))"
        q = Query(text, backend, [], list(g.uses), set(g.labels) | {"vector+partial-row"}, 3)
        evs = draw(events_strategy(sch, g.uses, n_min=5, n_max=8, null_links=False, min_size=0))
        n = len(evs)
        perms = [draw(st.permutations(list(range(n)))) for _ in range(2)]
        cut = draw(st.integers(1, n - 1))
        return q, evs, perms, cut

    @st.composite
    def cases(draw):
        if draw(st.integers(0, 4)) == 0:
            return draw(partial_cases())
        use_funcs = draw(st.booleans())
        feat = features()
        if use_funcs:
            feat.user_funcs = funcs
        q = draw(queries(sch, feat, fuel_range=(2, 3), extra_md=fmd if use_funcs else ()))
        uses = q.uses or [(sch.colls[0].accessor, sch.colls[0].banks[0])]
        # mostly events that hold at least one element per collection (First() is then defined); one case in four admits empty collections:
        # an event on which the query is undefined ends the job there, and must do so whatever came before it
        evs = draw(events_strategy(sch, uses, n_min=5, n_max=8, null_links=False, min_size=draw(st.sampled_from([1, 1, 1, 0]))))
        n = len(evs)
        perms = [draw(st.permutations(list(range(n)))) for _ in range(2)]
        cut = draw(st.integers(1, n - 1))
        return q, evs, perms, cut

    return cases()


FAULT = "<event faults: the job ends here>"


def outcome_of(e) -> str:
    """what an event did: its rows, or the fact that it ended the job"""
    if e["fault"] is not None or e["status_failure"]:
        return FAULT
    return jdump(e["rows"])


def check(text, backend, evs, perms, cut, labels=()):
    rep = {"backend": backend, "query": text, "events": [e.to_json() for e in evs], "perms": [list(p) for p in perms], "cut": cut}
    try:
        pkg = translate(text, backend)
    except Exception as e:
        raise Discard("rejected (C01's business): " + type(e).__name__)
    comp = cxx.compile_package(pkg.files, backend, cxx.std_model(backend))
    try:
        if not comp.ok:
            raise Discard("does not compile (C02's business)")
        evf = os.path.join(comp.workdir, "events.txt")
        write_events(evs, evf)
        n = len(evs)
        # reference: every event alone in a fresh process.  An event on which the query is undefined (First() of nothing) ends a real job:
        # in a longer schedule the stand-in driver stops there and the remaining events go to a fresh process (run_job_resume), so
        # whatever the dead job left behind is - as in reality - never seen.
        ref = {}
        for i in range(n):
            out = cxx.run_job(comp.exe, evf, [i])
            if out.get("crashed"):
                raise Discard("the job crashes on one event alone (C02 / C04's business)")
            if len(out["events"]) != 1:
                raise Discard("driver did not report the event")
            ref[out["events"][0]["id"]] = outcome_of(out["events"][0])
        n_fault = sum(1 for v in ref.values() if v == FAULT)
        schedules = [("file-order", list(range(n)))] + [("perm", list(p)) for p in perms]
        schedules.append(("twice", list(range(n)) + list(range(n))))
        schedules.append(("reversed", list(reversed(range(n)))))
        schedules.append(("split-1", list(range(cut))))
        schedules.append(("split-2", list(range(cut, n))))
        for name, sched in schedules:
            out = cxx.run_job_resume(comp.exe, evf, n, sched)
            if out.get("crashed"):
                raise Violation("fault-in-schedule", f"schedule {name} {sched}: job crashed ({out.get('crashed')}) though every event alone is fine", rep)
            if len(out["events"]) != len(sched):
                raise Violation("fault-in-schedule", f"schedule {name} {sched}: {len(out['events'])} of {len(sched)} events were processed", rep)
            for e in out["events"]:
                got = outcome_of(e)
                if got != ref[e["id"]]:
                    key = "order-dependence" if name in ("perm", "reversed", "file-order") else "history-dependence"
                    raise Violation(key, f"schedule {name} {sched}: event {e['id']} -> {got} but alone in a fresh process -> {ref[e['id']]}", rep)
        src = pkg.files.get("query.cxx") or pkg.files.get("Analyzer.cc")
        stateful = any(t in src for t in ("push_back", "aggResult", "is_first"))
        distinct_rows = len(set(ref.values()))
        return stateful, distinct_rows, n_fault
    finally:
        comp.cleanup()


def case_key(case):
    q, evs, perms, cut = case
    return jdump([q.text, [e.to_json() for e in evs], [list(p) for p in perms], cut])


def worker(payload):
    seed, n, deadline, backend = payload
    stats = Stats()

    def body(case):
        q, evs, perms, cut = case
        for k, v in q.excluded.items():
            stats.excluded[k] += v
        stateful, distinct_rows, n_fault = check(q.text, backend, evs, perms, cut, q.labels)
        nonid = sum(1 for p in perms if list(p) != list(range(len(evs)))) + 4
        nt = stateful and distinct_rows >= 3 and nonid >= 2
        labels = sorted(q.labels) + [f"backend={backend}"] + (["stateful-code"] if stateful else []) + (["some-event-ends-the-job"] if n_fault else [])
        stats.case(q.text, nt, labels, {"backend": backend, "query": q.text[-400:], "n_events": len(evs), "schedules": ["identity", "2 permutations", "reversed", "twice", "each alone", f"split at {cut}"]})

    hyp_search(body, case_strategy(backend), max_examples=n, seed=seed, stats=stats, deadline=deadline, key_fn=case_key, shrink_budget=40)
    return stats


def run(ctx: Ctx):
    ctx.rule = RULE
    ctx.assumptions = ["state held inside the real frameworks is out of reach; the stand-in model keeps none between events",
                       "same binary, so rows are compared exactly (text equality)"]
    for be in BACKENDS:
        cxx.std_model(be)
    total = ctx.n(256, 3200)
    shards = 16
    payloads = [(derive_seed(ctx.seed, "C05", i), max(1, total // shards), ctx.deadline, BACKENDS[i % 3]) for i in range(shards)]
    for st_ in run_shards("vf.props.C05", "worker", payloads):
        ctx.stats.merge(st_)


def replay(case):
    evs = [Event.from_json(j) for j in case["events"]]
    try:
        check(case["query"], case["backend"], evs, case["perms"], case["cut"])
    except Violation as v:
        return [{"key": v.key, "what": v.what}]
    except Discard:
        return []
    return []
