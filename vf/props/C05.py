"""C05 - rows for an event depend on that event only (reference-free, metamorphic on one compiled job).

One generated query is translated and compiled once; the same binary then processes the same events
under several schedules (identity, permutations, every event alone in a fresh process, the list split
over two processes, the list concatenated with itself).  rows(event k) must be identical everywhere."""
from __future__ import annotations

import os

from hypothesis import strategies as st

from vf import cxx
from vf.core import Ctx, Discard, Stats, Violation, derive_seed, hyp_search, jdump, run_shards
from vf.gen.query import Features, queries
from vf.model.events import Event, events_strategy, write_events
from vf.model.schema import standard_schema
from vf.xlate import BACKENDS, translate

RULE = (
    "case = (back end, generated fault-free query biased to state-carrying constructs: vector / 2-D columns, accumulators, event-level "
    "Where, Range; 5-8 generated events; drawn schedules: 2 permutations, each event alone in a fresh process, a split into two "
    "processes, the list twice in one process). Oracle: per-event row lists identical across all schedules. non-trivial = >=3 events "
    "with pairwise different rows AND the emitted code has a vector column, accumulator or first-flag AND >=2 non-identity schedules; "
    "distinct by query text."
)


def features():
    # First() is generated; events hold at least one element per collection so that it rarely faults (a faulting case is discarded)
    return Features(first=True, index=False, nullable=False)


def case_strategy(backend):
    sch = standard_schema(backend)
    from vf.gen.metadata import simple_cpp_functions

    fmd, funcs, _ = simple_cpp_functions()
    # an opaque user C++ function that keeps its OWN state would be the user's business; ours are pure, so any
    # schedule dependence still comes from the translator
    @st.composite
    def cases(draw):
        use_funcs = draw(st.booleans())
        feat = features()
        if use_funcs:
            feat.user_funcs = funcs
        q = draw(queries(sch, feat, fuel_range=(2, 3), extra_md=fmd if use_funcs else ()))
        uses = q.uses or [(sch.colls[0].accessor, sch.colls[0].banks[0])]
        evs = draw(events_strategy(sch, uses, n_min=5, n_max=8, null_links=False, min_size=1))
        n = len(evs)
        perms = [draw(st.permutations(list(range(n)))) for _ in range(2)]
        cut = draw(st.integers(1, n - 1))
        return q, evs, perms, cut

    return cases()


def rows_by_event(out):
    d = {}
    for e in out["events"]:
        if e["fault"] is not None or e["status_failure"]:
            raise Discard("faulting event (outside C05's fault-free domain)")
        d.setdefault(e["id"], []).append(jdump(e["rows"]))
    return d


def check(text, backend, evs, perms, cut, labels=()):
    rep = {"backend": backend, "query": text, "events": [e.to_json() for e in evs], "perms": [list(p) for p in perms], "cut": cut}
    try:
        pkg = translate(text, backend)
    except Exception as e:
        raise Discard("rejected (C01's business): " + type(e).__name__)
    comp = cxx.compile_package(pkg.files, backend, cxx.std_model(backend))
    try:
        if not comp.ok:
            raise Discard("does not compile (C02's business)")
        evf = os.path.join(comp.workdir, "events.txt")
        write_events(evs, evf)
        n = len(evs)
        base = cxx.run_job(comp.exe, evf, list(range(n)))
        if base.get("crashed") or base.get("aborted"):
            raise Discard("faulting event (outside C05's fault-free domain)")
        ref = rows_by_event(base)
        ref = {k: v[0] for k, v in ref.items()}
        ids = [e.id for e in evs]
        schedules = [("perm", list(p)) for p in perms]
        schedules.append(("twice", list(range(n)) + list(range(n))))
        schedules.append(("reversed", list(reversed(range(n)))))
        multi = [("alone", [[i] for i in range(n)]), ("split", [list(range(cut)), list(range(cut, n))])]
        for name, sched in schedules:
            out = cxx.run_job(comp.exe, evf, sched)
            if out.get("crashed") or out.get("aborted"):
                raise Violation("fault-in-schedule", f"schedule {name} {sched}: job failed ({out.get('crashed')}) though every event alone is fine", rep)
            for e in out["events"]:
                if jdump(e["rows"]) != ref[e["id"]]:
                    raise Violation("order-dependence", f"schedule {name} {sched}: event {e['id']} wrote {e['rows']} but in file order it wrote {ref[e['id']]}", rep)
        for name, parts in multi:
            for sched in parts:
                out = cxx.run_job(comp.exe, evf, sched)
                if out.get("crashed") or out.get("aborted"):
                    raise Violation("fault-in-schedule", f"schedule {name} {sched}: job failed", rep)
                for e in out["events"]:
                    if jdump(e["rows"]) != ref[e["id"]]:
                        raise Violation("history-dependence", f"{name} {sched}: event {e['id']} wrote {e['rows']} but after the preceding events it wrote {ref[e['id']]}", rep)
        src = pkg.files.get("query.cxx") or pkg.files.get("Analyzer.cc")
        stateful = any(t in src for t in ("push_back", "aggResult", "is_first"))
        distinct_rows = len(set(ref.values()))
        return stateful, distinct_rows
    finally:
        comp.cleanup()


def case_key(case):
    q, evs, perms, cut = case
    return jdump([q.text, [e.to_json() for e in evs], [list(p) for p in perms], cut])


def worker(payload):
    seed, n, deadline, backend = payload
    stats = Stats()

    def body(case):
        q, evs, perms, cut = case
        for k, v in q.excluded.items():
            stats.excluded[k] += v
        stateful, distinct_rows = check(q.text, backend, evs, perms, cut, q.labels)
        nonid = sum(1 for p in perms if list(p) != list(range(len(evs)))) + 4
        nt = stateful and distinct_rows >= 3 and nonid >= 2
        labels = sorted(q.labels) + [f"backend={backend}"] + (["stateful-code"] if stateful else [])
        stats.case(q.text, nt, labels, {"backend": backend, "query": q.text[-400:], "n_events": len(evs), "schedules": ["identity", "2 permutations", "reversed", "twice", "each alone", f"split at {cut}"]})

    hyp_search(body, case_strategy(backend), max_examples=n, seed=seed, stats=stats, deadline=deadline, key_fn=case_key, shrink_budget=40)
    return stats


def run(ctx: Ctx):
    ctx.rule = RULE
    ctx.assumptions = ["state held inside the real frameworks is out of reach; the stand-in model keeps none between events",
                       "same binary, so rows are compared exactly (text equality)"]
    for be in BACKENDS:
        cxx.std_model(be)
    total = ctx.n(256, 3200)
    shards = 16
    payloads = [(derive_seed(ctx.seed, "C05", i), max(1, total // shards), ctx.deadline, BACKENDS[i % 3]) for i in range(shards)]
    for st_ in run_shards("vf.props.C05", "worker", payloads):
        ctx.stats.merge(st_)


def replay(case):
    evs = [Event.from_json(j) for j in case["events"]]
    try:
        check(case["query"], case["backend"], evs, case["perms"], case["cut"])
    except Violation as v:
        return [{"key": v.key, "what": v.what}]
    except Discard:
        return []
    return []
