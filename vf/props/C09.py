"""C09 - unsupported or malformed queries are refused, never half-translated.

A valid generated query receives one graft from a catalogue of constructs the property text / README
call unsupported, at a random type-compatible position (top level, nested lambdas, behind constructs
the normalisations rewrite).  Oracle: translation must raise.  A returned package is a violation."""
from __future__ import annotations

import ast
import copy

from hypothesis import strategies as st

from vf.core import Ctx, Discard, Stats, Violation, derive_seed, hyp_search, jdump, run_shards
from vf.gen.query import Features, QGen, Query, TEvt, TNum, TObj, TSeq, dataset_text, queries
from vf.model.schema import method_metadata, standard_schema
from vf.xlate import BACKENDS, translate

RULE = (
    "case = (back end, generated host query, graft kind, graft position = index of the numeric / column production it replaces). asserted "
    "catalogue: operators // << >> ^ @ ~ (not & and |: the README documents them as the spelling of and / or), comparison chains, in / is, Aggregate(f) and Aggregate(f, g), Sum / Max / Min with an argument, accumulators of one or three parameters, slices, + - * / % ** unary and "
    "comparison with a collection operand, math functions of a collection, a collection / sequence / object / string where a truth value is needed (and / or operand, conditional test, Where predicate), First() with a predicate or default, a surplus argument of Select / Where / SelectMany or of an applied lambda (and a missing one), unary operators / ** / math functions of a string or an object, a string or an object as a Range bound or an index, raw-object output columns (collection, singleton, First() of objects, object in a tuple), sequence "
    "operators on a scalar, a member or method of a number / bool, arithmetic with a string or an object operand, wrong number of column names, getAttribute, math.sin module calls, keyword arguments (silently dropped before the fix), metadata without / with unknown "
    "metadata_type, with a missing, unknown or misspelt key, with a string where a list of strings is documented, with both return_type and return_type_element, a block of an executor-registered (extended) metadata type with a misspelt key. non-trivial = graft at lambda depth >= 2 or behind a rewrite (First-method, fused "
    "Select/Where, ifexp arm, and/or operand); distinct by (graft kind, depth, host shape)."
)

MARK = 424242  # every expression graft carries this literal so that we can tell whether it reached the translator

NUM_GRAFTS = [
    "floordiv", "lshift", "rshift", "bitxor", "matmul", "invert", "chain", "in", "is",
    "seq-add", "seq-mul", "seq-neg", "seq-cmp", "seq-pow", "seq-div", "seq-mod", "vec-add", "vec-neg", "vec-cmp", "vec-pow",
    "seq-negneg", "seq-posneg", "seq-notnot", "seq-neg4", "vec-negneg", "seq-cmp-rhs", "seq-sub-rhs",
    "agg-1", "agg-2", "slice", "slice-step", "scalar-Select", "scalar-Count", "scalar-Where", "scalar-First", "scalar-Sum", "math-module",
    "getAttribute", "kwarg-method", "kwarg-function", "kwarg-aggregate", "kwarg-collection",
    "num-member", "num-method", "bool-member", "bool-method", "num-member-chain",
    "num-op-str", "str-op-num", "num-op-obj", "obj-op-num", "agg-obj",
    "sum-selector", "max-arg", "min-selector", "agg-acc1", "agg-acc3",
    "seq-fn-pow", "seq-fn-sqrt", "seq-fn-abs", "seq-fn-fmax",
    "first-pred", "first-pred-obj", "first-pred-default",
    "where-extra-arg", "select-extra-arg", "selectmany-extra-arg", "lambda-extra-arg", "lambda-missing-arg",
    "not-str", "not-obj", "neg-str", "neg-obj", "pow-obj", "pow-str", "fn-obj", "fn-str",
    "range-str-bound", "range-obj-bound", "index-str", "index-obj",
    "seq-truth-and", "seq-truth-or", "seq-truth-if", "seq-truth-where", "vec-truth-if", "vec-truth-where", "vec-truth-and", "str-truth-if", "obj-truth-if", "obj-truth-and",
]
COL_GRAFTS = ["raw-collection", "raw-singleton", "raw-first-object", "raw-object-var", "raw-objvec"]
TOP_GRAFTS = ["names-too-few", "names-too-many", "md-no-type", "md-unknown-type", "md-missing-key", "md-unknown-key", "md-unknown-key-cppfn", "md-string-for-list",
              "md-both-return-types", "md-extended-unknown-key"]
# collect-only, not asserted.  '&' and '|' are refused by the translator today, but the README documents them as the way to write and / or in an
# expression: a translator that came to support them would hold the property, so their refusal is not demanded (they were in the asserted list before)
EXTENDED = ["kwarg", "set", "genexp", "starred", "walrus", "fstring", "bitor", "bitand"]


class GraftGen(QGen):
    def __init__(self, draw, schema, feat, kind, at):
        super().__init__(draw, schema, feat)
        self.kind = kind
        self.at = at
        self.count = 0
        self.applied = None  # (depth, context)
        self.ctx = []

    def _collection_text(self, scope):
        evs = [n for n, t in scope if isinstance(t, TEvt)]
        if not evs:
            return None
        c = self.pick([c for c in self.s.colls if not c.singleton])
        b = self.pick(c.banks)
        self.uses.append((c.accessor, b))
        return f"{evs[0]}.{c.accessor}({b!r})"

    def _vec_text(self, scope):
        objs = self.obj_sources(scope, 0)
        vm = [(txt, m) for txt, cls in objs for m in self.s.classes[cls].methods if m.kind in ("vec", "objvec")]
        if not vm:
            return None
        txt, m = self.pick(vm)
        return f"{txt}.{m.name}()"

    def graft_num(self, t, scope):
        k = self.kind
        M = MARK
        simple = {"floordiv": f"({t} // {M})", "lshift": f"({t} << {M})", "rshift": f"({t} >> {M})", "bitor": f"({t} | {M})", "bitxor": f"({t} ^ {M})",
                  "bitand": f"({t} & {M})", "matmul": f"({t} @ {M})", "invert": f"(~({t} + {M}))", "chain": f"(0 < {t} < {M})", "in": f"({t} in (1, {M}))", "is": f"({t} is {M})",
                  "scalar-Select": f"({t}).Select(lambda s: s + {M})", "scalar-Count": f"({t} + {M}).Count()", "scalar-Where": f"({t}).Where(lambda s: s > {M}).Count()",
                  "scalar-First": f"({t} + {M}).First()", "scalar-Sum": f"({t} + {M}).Sum()", "math-module": f"math.sin({t} + {M})",
                  "num-member": f"(({t} + {M}).foo)", "num-method": f"(({t} + {M}).foo())", "bool-member": f"(({t} > {M}).foo)", "bool-method": f"(({t} > {M}).foo())",
                  "num-member-chain": f"(({t} + {M}).foo.bar + 1)"}
        if k in simple:
            return simple[k]
        if k in ("num-op-str", "str-op-num"):
            op = self.pick(["+", "-", "*", "/", "%"])
            return f"(({t}) {op} 's{M}')" if k == "num-op-str" else f"('s{M}' {op} ({t}))"
        if k in ("num-op-obj", "obj-op-num", "agg-obj"):
            objs = self.obj_sources(scope, 0)
            if not objs:
                return None
            o = self.pick(objs)[0]
            op = self.pick(["+", "-", "*", "/", "%"])
            if k == "agg-obj":
                s_ = self._collection_text(scope)
                return f"({s_}.Aggregate({M}.5, lambda acc, v: v) + 1)" if s_ else None
            return f"((({t}) + {M}.5) {op} {o})" if k == "num-op-obj" else f"({o} {op} (({t}) + {M}.5))"
        if k in ("sum-selector", "max-arg", "min-selector", "agg-acc1", "agg-acc3"):
            self.noflat += 1
            os_ = self.numseq(scope, 0)
            self.noflat -= 1
            if os_ is None:
                return None
            return {"sum-selector": f"({os_[0]}.Sum(lambda sx: sx * {M}) + {t})", "max-arg": f"({os_[0]}.Max({M}) + {t})",
                    "min-selector": f"({os_[0]}.Min(lambda sx: sx - {M}) + {t})", "agg-acc1": f"({os_[0]}.Aggregate({M}.5, lambda a1: a1 + 1) + {t})",
                    "agg-acc3": f"({os_[0]}.Aggregate({M}.5, lambda a1, a2, a3: a1 + a2) + {t})"}[k]
        if k in ("first-pred", "first-pred-default"):
            # First() takes the sequence and nothing else: a predicate (or a default) would be dropped
            self.noflat += 1
            os_ = self.numseq(scope, 0)
            self.noflat -= 1
            if os_ is None:
                return None
            return f"({os_[0]}.First(lambda fx: fx > {M}) + {t})" if k == "first-pred" else f"(First({os_[0]}, lambda fx: fx < {M}, {M}) + {t})"
        if k == "first-pred-obj":
            s_ = self._collection_text(scope)
            if s_ is None:
                return None
            cls = [c for c in self.s.colls if f".{c.accessor}(" in s_][0].element
            ms = [m for m in self.s.classes[cls].methods if m.kind == "num" and not m.member and not m.enum]
            if not ms:
                return None
            m = self.pick(ms).name
            return f"({s_}.First(lambda fo: fo.{m}() < {M}).{m}() + {t})"
        if k in ("seq-truth-and", "seq-truth-or", "seq-truth-if", "seq-truth-where"):
            # a collection / sequence where a truth value is needed ('not seq' is refused too)
            s_ = self._collection_text(scope)
            if s_ is None:
                return None
            if self.chance(1, 2):
                s_ = f"{s_}.Select(lambda tv: {M})"
            return {"seq-truth-and": f"(1 if ({s_} and {t} > {M}) else 0)", "seq-truth-or": f"(1 if ({t} > {M} or {s_}) else 0)", "seq-truth-if": f"({M} if {s_} else {t})",
                    "seq-truth-where": f"({s_}.Where(lambda tw: {s_}).Count() + {M})"}[k]
        if k in ("vec-truth-if", "vec-truth-where", "vec-truth-and"):
            v = self._vec_text(scope)
            if v is None:
                return None
            objs = self.obj_sources(scope, 0)
            return {"vec-truth-if": f"({M} if {v} else {t})", "vec-truth-and": f"(1 if ({t} > {M} and {v}) else 0)",
                    "vec-truth-where": f"({v}.Where(lambda tw: {v}).Count() + {M})"}[k]
        if k == "str-truth-if":
            return self.pick([f"({M} if 's{M}' else {t})", f"({M} if '' else {t} + {M})", f"(1 if ('s{M}' and {t} > 0) else 0)"])
        if k in ("obj-truth-if", "obj-truth-and"):
            objs = self.obj_sources(scope, 0)
            if not objs:
                return None
            o = self.pick(objs)[0]
            return f"({M} if {o} else {t})" if k == "obj-truth-if" else f"(1 if ({o} and {t} > {M}) else 0)"
        if k in ("where-extra-arg", "select-extra-arg", "selectmany-extra-arg"):
            # the sequence operators take the sequence and ONE lambda: a further argument (a second filter, say) would be dropped
            self.noflat += 1
            os_ = self.numseq(scope, 0)
            self.noflat -= 1
            if os_ is None:
                return None
            if k == "where-extra-arg":
                return f"({os_[0]}.Where(lambda wa: wa > -{M}, lambda wb: wb < {M}).Count() + {t})"
            if k == "select-extra-arg":
                return f"({os_[0]}.Select(lambda wa: wa + {M}, lambda wb: wb * 2).Count() + {t})"
            s_ = self._collection_text(scope)
            v_ = self._vec_text(scope)
            return f"({s_}.SelectMany(lambda wa: {os_[0]}, lambda wb: {M}).Count() + {t})" if s_ else None
        if k == "lambda-extra-arg":
            return f"((lambda la: la + {M})({t}, 17))"
        if k == "lambda-missing-arg":
            return f"((lambda la, lb: la + {M})({t}))"
        if k in ("not-str", "neg-str", "pow-str", "fn-str"):
            return {"not-str": f"(1 if (not 's{M}') else {t})", "neg-str": f"((-'s{M}') + {t})", "pow-str": f"(('s{M}' ** 2) + {t})", "fn-str": f"(sqrt('s{M}') + {t})"}[k]
        if k in ("not-obj", "neg-obj", "pow-obj", "fn-obj", "range-obj-bound", "index-obj"):
            objs = self.obj_sources(scope, 0)
            if not objs:
                return None
            o = self.pick(objs)[0]
            if k == "index-obj":
                v = self._vec_text(scope)
                return f"({v}[{o}] + {M})" if v else None
            return {"not-obj": f"(({M} if (not {o}) else {t}))", "neg-obj": f"((-{o}) + {t} + {M})", "pow-obj": f"(({o} ** 2) + {t} + {M})", "fn-obj": f"(sqrt({o}) + {t} + {M})",
                    "range-obj-bound": f"(Range(0, {o}).Count() + {M})"}[k]
        if k == "range-str-bound":
            return f"(Range(0, 's{M}').Count() + {t})"
        if k == "index-str":
            v = self._vec_text(scope)
            return f"({v}['s{M}'] + {t})" if v else None
        if k == "kwarg-function":
            return f"sin({t}, extra={M})"
        if k == "kwarg-method":
            objs = self.obj_sources(scope, 0)
            if not objs:
                return None
            o = self.pick(objs)
            ms = [m for m in self.s.classes[o[1]].methods if m.kind == "num" and not m.member]
            return f"({o[0]}.{self.pick(ms).name}(x={M}) + {t})" if ms else None
        if k == "kwarg-aggregate":
            os_ = self.numseq(scope, 0)
            return f"({os_[0]}.Count(start={M}) + {t})" if os_ else None
        if k == "kwarg-collection":
            evs = [n for n, ty in scope if isinstance(ty, TEvt)]
            if not evs:
                return None
            c = self.pick([c for c in self.s.colls if not c.singleton])
            return f"({evs[0]}.{c.accessor}({c.banks[0]!r}, calibrated={M}).Count() + {t})"
        if k.startswith("seq-") or k in ("agg-1", "agg-2"):
            s = self._collection_text(scope) or self._vec_text(scope)
            if s is None:
                return None
            if k in ("agg-1", "agg-2"):
                os_ = self.numseq(scope, 0)
                if os_ is None:
                    return None
                return f"{os_[0]}.Aggregate(lambda a, v: a + v + {MARK})" if k == "agg-1" else f"{os_[0]}.Aggregate(lambda v: v, lambda a, v: a + v + {MARK})"
            if k.startswith("seq-fn-"):
                return {"seq-fn-pow": f"(pow({s}, 2) + {MARK})", "seq-fn-sqrt": f"(sqrt({s}) + {MARK})", "seq-fn-abs": f"(abs({s}) + {MARK})",
                        "seq-fn-fmax": f"(fmax({MARK}, {s}) + {t})"}[k]
            extra = {"seq-negneg": f"((- -{s}).Count() + {MARK})", "seq-posneg": f"((+ -{s}).Count() + {MARK})", "seq-notnot": f"((not not {s}) if {t} > {MARK} else 0)",
                     "seq-neg4": f"((- - - -{s}).Count() + {MARK})", "seq-cmp-rhs": f"({MARK} < {s})", "seq-sub-rhs": f"({MARK} - {s})"}
            if k in extra:
                return extra[k]
            return {"seq-add": f"({s} + {MARK})", "seq-mul": f"(({t} + {MARK}) * {s})", "seq-neg": f"((-{s}) if {t} > {MARK} else 0)", "seq-cmp": f"({s} > {MARK})", "seq-pow": f"({s} ** {MARK})",
                    "seq-div": f"({s} / {MARK})", "seq-mod": f"({s} % {MARK})"}[k]
        if k.startswith("vec-") or k in ("slice", "slice-step"):
            v = self._vec_text(scope)
            if v is None:
                return None
            if k == "vec-negneg":
                return f"((- -{v}).Count() + {MARK})"
            return {"vec-add": f"({v} + {t} + {MARK})", "vec-neg": f"((-{v}) if {t} > {MARK} else 0)", "vec-cmp": f"(({t} + {MARK}) < {v})", "vec-pow": f"({v} ** {MARK})",
                    "slice": f"({v}[0:2].Count() + {MARK})", "slice-step": f"({v}[::2].Count() + {MARK})"}[k]
        if k == "getAttribute":
            objs = [o for o in self.obj_sources(scope, 0) if o[1] == "xAOD::Jet"]
            coll = self._collection_text(scope) if self.chance(1, 2) else None
            if coll is not None:
                # the receiver need not be a lambda variable
                return f"({coll}{self.pick(['[0]', '.First()'])}.getAttribute('emf') + {MARK})"
            if not objs:
                return None
            return f"({self.pick(objs)[0]}.getAttribute('emf') + {MARK})"
        return None

    def num(self, scope, fuel):
        t, kind = super().num(scope, fuel)
        if self.kind in NUM_GRAFTS and self.applied is None and not self.ctx:
            self.count += 1
            if self.count >= self.at:
                self.ctx.append(1)
                try:
                    g = self.graft_num(t, scope)
                finally:
                    self.ctx.pop()
                if g is not None:
                    self.applied = (sum(1 for n, ty in scope), fuel)
                    return g, kind
        return t, kind

    def column(self, scope, fuel):
        if self.kind in COL_GRAFTS and self.applied is None and not self.ctx:
            self.count += 1
            if self.count >= self.at:
                k = self.kind
                txt = None
                if k == "raw-collection":
                    txt = self._collection_text(scope)
                elif k == "raw-singleton":
                    evs = [n for n, t in scope if isinstance(t, TEvt)]
                    sing = [c for c in self.s.colls if c.singleton]
                    if evs and sing:
                        c = sing[0]
                        self.uses.append((c.accessor, c.banks[0]))
                        txt = f"{evs[0]}.{c.accessor}({c.banks[0]!r})"
                elif k == "raw-first-object":
                    s = self._collection_text(scope)
                    txt = f"{s}.First()" if s else None
                elif k == "raw-object-var":
                    objs = self.obj_sources(scope, 0)
                    txt = self.pick(objs)[0] if objs else None
                elif k == "raw-objvec":
                    objs = self.obj_sources(scope, 0)
                    vm = [(t_, m) for t_, cls in objs for m in self.s.classes[cls].methods if m.kind == "objvec"]
                    if vm:
                        t_, m = self.pick(vm)
                        txt = f"{t_}.{m.name}().Select(lambda o: o)" if self.chance(1, 2) else f"{t_}.{m.name}().First()"
                if txt is not None:
                    self.applied = (len(scope), fuel)
                    return txt, TNum("double")
        return super().column(scope, fuel)


def host_features():
    return Features(plumbing=False, explicit_ttree=False, first=True, index=True)


@st.composite
def cases(draw, backend):
    sch = standard_schema(backend)
    kind = draw(st.sampled_from(NUM_GRAFTS + NUM_GRAFTS + COL_GRAFTS + COL_GRAFTS + TOP_GRAFTS * 4))
    if kind in TOP_GRAFTS:
        q = draw(queries(sch, host_features()))
        text = q.text
        if kind.startswith("names"):
            names = [n for n, _ in q.columns]
            names = names[:-1] if kind == "names-too-few" and len(names) > 1 else names + ["extra"]
            if text.startswith("Select(") and not isinstance(ast.parse(text, mode="eval").body.args[1].body, ast.Dict):
                text = f"ResultTTree({text}, {names!r}, 'tree', 'f.root')"
            else:
                return {"backend": backend, "kind": kind, "text": None}
        else:
            good = {"metadata_type": "add_method_type_info", "type_string": "xAOD::Jet", "method_name": "foo", "return_type": "int"}
            coll_md = {"atlas": {"metadata_type": "add_atlas_event_collection_info", "name": "MyJets", "include_files": ["xAODJet/JetContainer.h"], "container_type": "xAOD::JetContainer",
                                 "element_type": "xAOD::Jet", "contains_collection": True},
                       "cms_aod": {"metadata_type": "add_cms_aod_event_collection_info", "name": "MyMu", "include_files": ["x.h"], "container_type": "reco::MuonCollection",
                                   "element_type": "reco::Muon", "contains_collection": True},
                       "cms_miniaod": {"metadata_type": "add_cms_miniaod_event_collection_info", "name": "MyMu", "include_files": ["x.h"], "container_type": "pat::MuonCollection",
                                       "element_type": "pat::Muon", "contains_collection": True}}[backend]
            pool = [good, coll_md, {"metadata_type": "add_job_script", "name": "s", "script": ["x = 1"], "depends_on": []},
                    {"metadata_type": "add_cpp_function", "name": "f", "include_files": [], "arguments": ["a"], "code": ["double result = a;"], "return_type": "double"},
                    {"metadata_type": "inject_code", "name": "b", "body_includes": ["a.h"]}]
            md = dict(draw(st.sampled_from(pool)))
            if kind == "md-no-type":
                del md["metadata_type"]
            elif kind == "md-unknown-type":
                md["metadata_type"] = draw(st.sampled_from(["add_method_type", "inject", "docker", "add_cms_collection", ""]))
            elif kind == "md-missing-key":
                req = [k for k in md if k != "metadata_type" and not (md["metadata_type"] == "add_job_script" and k == "depends_on") and not (md["metadata_type"] == "inject_code" and k != "name")]
                if md["metadata_type"] == "inject_code":
                    return {"backend": backend, "kind": kind, "text": None}
                del md[draw(st.sampled_from(req))]
            elif kind == "md-string-for-list":
                # a plain string where the README documents a list of strings (it would be taken apart into characters)
                lists = {"add_job_script": ["script", "depends_on"], "add_cpp_function": ["include_files", "arguments", "code"], "inject_code": ["body_includes"],
                         coll_md["metadata_type"]: ["include_files"]}
                if md["metadata_type"] not in lists:
                    md = dict(pool[draw(st.integers(1, 4))])
                md[draw(st.sampled_from(lists[md["metadata_type"]]))] = draw(st.sampled_from(["file1.hpp", "x", "print(1)"]))
            elif kind == "md-both-return-types":
                md = dict(good, return_type_element="float")
            elif kind == "md-extended-unknown-key":
                # a metadata type the executor's owner registered (what LocalDataset does for 'docker'): a misspelt key would be dropped
                md = draw(st.sampled_from([{"metadata_type": "vf_docker", "imge": "my/image:1"}, {"metadata_type": "vf_docker", "image": "my/image:1", "tag": "latest"},
                                           {"metadata_type": "vf_docker", "Image": "x"}]))
            elif kind == "md-unknown-key-cppfn":
                # known finding: the pinned tests hand add_cpp_function a 'result' / 'return_pointer_depth' key nobody reads
                md = dict(pool[3])
                md[draw(st.sampled_from(["bogus", "instance_obj", "result", "includes"]))] = "x"
            else:
                if md["metadata_type"] == "add_cpp_function":
                    md = dict(draw(st.sampled_from([good, coll_md, pool[2], pool[4], {"metadata_type": "define_enum", "namespace": "xAOD.Jet", "name": "Color", "values": ["Red", "Blue"]}])))
                misspelt = {"add_method_type_info": ["deref_cnt", "tree_typ", "return_typ_collection"], "add_job_script": ["dependson", "depends"], "define_enum": ["value"]}
                md[draw(st.sampled_from(["bogus", "elements", "includes"] + misspelt.get(md["metadata_type"], [])))] = draw(st.sampled_from(["x", 2, ["a"]]))
            pos = draw(st.sampled_from(["inner", "outer"]))
            if pos == "outer":
                text = f"MetaData({text}, {md!r})"
            else:
                text = text.replace("EventDataset('ds')", f"MetaData(EventDataset('ds'), {md!r})", 1)
        return {"backend": backend, "kind": kind, "text": text, "depth": 0, "labels": sorted(q.labels)}
    if kind == "getAttribute" and backend != "atlas":
        kind = "floordiv"
    for attempt in range(5):
        c = draw(_host(backend, sch, kind, attempt))
        if c["text"] is not None:
            return c
    return c


@st.composite
def _host(draw, backend, sch, kind, attempt):
    at = draw(st.integers(1, 6)) if attempt < 3 else 1
    # build a host with the grafting generator (same shapes as vf.gen.query.queries, simplified)
    g = GraftGen(draw, sch, host_features(), kind, at)
    fuel = draw(st.integers(1, 3))
    ds = dataset_text(sch)
    needs_obj = kind.startswith("vec-") or kind in ("slice", "slice-step", "getAttribute", "raw-object-var", "raw-objvec")
    shape = "object" if needs_obj and (attempt > 0 or draw(st.booleans())) else draw(st.sampled_from(["event", "event", "object", "where-event"]))
    ncols = draw(st.integers(1, 3))
    form = draw(st.sampled_from(["tuple", "dict", "list"]))
    src = ds
    if shape == "where-event":
        b = g.boolean([("e", TEvt())], fuel - 1)
        src = f"Where({ds}, lambda e: {b})"
    if shape == "object":
        os_ = g.objseq([("e", TEvt())], fuel - 1)
        if needs_obj:
            main = {"atlas": ("Jets", "AntiKt4"), "cms_aod": ("Muons", "muons"), "cms_miniaod": ("Muons", "slimmedMuons")}[backend]
            g.uses.append(main)
            os_ = (f"e.{main[0]}({main[1]!r})", sch.coll(main[0]).element)
        body, cols = g.row([("j", TObj(os_[1]))], fuel, ncols, form)
        text = f"Select(SelectMany({src}, lambda e: {os_[0]}), lambda j: {body})"
    else:
        body, cols = g.row([("e", TEvt())], fuel, ncols, form)
        text = f"Select({src}, lambda e: {body})"
    if g.applied is None:
        return {"backend": backend, "kind": kind, "text": None}
    return {"backend": backend, "kind": kind, "text": text, "depth": g.applied[0], "labels": sorted(g.labels)}


def check(c):
    if c["text"] is None:
        raise Discard("graft not applicable to this host")
    rep = {"backend": c["backend"], "kind": c["kind"], "query": c["text"]}
    if c["kind"] in NUM_GRAFTS and str(MARK) not in c["text"]:
        raise Discard("graft not applicable to this host")
    try:
        ast.parse(c["text"], mode="eval")
    except SyntaxError:
        raise Discard("host+graft is not Python")
    exe = None
    if c["kind"] == "md-extended-unknown-key":
        import dataclasses

        from vf.xlate import make_executor

        @dataclasses.dataclass
        class VfDocker:
            image: str

        exe = make_executor(c["backend"])
        exe.add_extended_md({"vf_docker": VfDocker("default/image:0")})
        # (the well-formed block is accepted by this executor)
        translate(c["text"].replace(c["text"][c["text"].index("{'metadata_type': 'vf_docker'"):c["text"].index("}", c["text"].index("{'metadata_type': 'vf_docker'")) + 1],
                                    "{'metadata_type': 'vf_docker', 'image': 'my/image:1'}"), c["backend"], exe=exe)
    try:
        pkg = translate(c["text"], c["backend"], exe=exe)
    except Exception as e:
        return type(e).__name__
    if c["kind"] in NUM_GRAFTS and not c["kind"].startswith("kwarg") and c["kind"] not in ("sum-selector", "max-arg", "min-selector", "first-pred", "first-pred-obj", "first-pred-default", "where-extra-arg", "select-extra-arg", "selectmany-extra-arg", "lambda-extra-arg", "lambda-missing-arg"):
        # did the graft reach the translator at all?  func_adl's normalisations (the executor's first step)
        # legitimately drop values nothing uses (Select(f).Select(lambda v: 0), identity Selects)
        from vf.xlate import make_executor

        try:
            a2 = make_executor(c["backend"]).apply_ast_transformations(ast.parse(c["text"], mode="eval").body)
            alive = any(isinstance(n, ast.Constant) and str(MARK) in str(n.value) for n in ast.walk(a2))
        except Exception:
            alive = True
        if not alive:
            raise Discard("graft was dead code removed by func_adl's normalisation before translation")
    raise Violation("accepted-" + c["kind"], f"a package was returned for a query with an unsupported construct ({c['kind']})", rep)


def case_key(c):
    return jdump([c["backend"], c["kind"], c["text"]])


def worker(payload):
    seed, n, deadline, backend = payload
    stats = Stats()

    def body(c):
        if c["kind"] == "md-unknown-key-cppfn":
            # recorded finding (known_findings.txt; regress/C09-md-unknown-key-cppfn.json shows it on every run): excluded from the search, counted
            stats.excluded["md-unknown-key-cppfn"] += 1
            raise Discard("recorded finding")
        exc = check(c)
        depth = c.get("depth", 0)
        rewrites = [l for l in c.get("labels", []) if l in ("First", "ifexp", "and", "or", "Where-inner", "Select-numbers", "Where-numbers", "Aggregate", "Sum")]
        nt = depth >= 2 or bool(rewrites)
        stats.case(jdump([backend, c["kind"], depth, sorted(set(rewrites))]), nt, [f"backend={backend}", "graft=" + c["kind"], f"lambda_depth={depth}", "raised=" + exc],
                   {"backend": backend, "graft": c["kind"], "raised": exc, "query": c["text"][-300:]})

    hyp_search(body, cases(backend), max_examples=n, seed=seed, stats=stats, deadline=deadline, key_fn=case_key, shrink_budget=150)
    return stats


def run(ctx: Ctx):
    ctx.rule = RULE
    ctx.assumptions = ["hosts have no tuple/dict plumbing between Selects (func_adl drops items the second lambda never uses before the translator sees them)",
                       "the catalogue lists only constructs the property statement or the README name as unsupported"]
    total = ctx.n(2400, 60000)
    shards = 16
    payloads = [(derive_seed(ctx.seed, "C09", i), max(1, total // shards), ctx.deadline, BACKENDS[i % 3]) for i in range(shards)]
    for st_ in run_shards("vf.props.C09", "worker", payloads):
        ctx.stats.merge(st_)


def replay(case):
    try:
        check({"backend": case["backend"], "kind": case["kind"], "text": case["query"]})
    except Violation as v:
        return [{"key": v.key, "what": v.what}]
    except Discard:
        return []
    return []
