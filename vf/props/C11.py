"""C11 - injected C++ functions are applied hygienically at every call site.

Generated: function / method specifications (0-4 parameters named from an adversarial alphabet of
words that occur inside rendered arguments and inside each other, 1-3 code lines of arithmetic with
local temporaries, custom result names, scalar or collection return, include files, function vs
method) and call expressions (method calls, constants, nested and repeated calls, inside loops and
filters), plus wrong arity / wrong call style (must raise) and the built-ins DeltaR, isNonnull,
getAttributeFloat / getAttributeVectorFloat.
Oracle: (text) every emitted block must be an instance of the code template under ONE consistent
whole-word simultaneous substitution (unification of template and emitted lines), isolated in its own
{} block, its result copied into a variable of the declared type declared before the block, includes
requested; (value) the compiled job's rows equal the Python meaning of the function."""
from __future__ import annotations

import re
from typing import Dict, List, Optional, Tuple

from hypothesis import strategies as st

from vf import cxx, enginea
from vf.core import Ctx, Discard, Stats, Violation, derive_seed, hyp_search, jdump, run_shards
from vf.gen.query import dataset_text
from vf.model.events import Event, events_strategy
from vf.model.schema import standard_schema
from vf.ref import linq

BACKENDS = ("atlas", "cms_aod", "cms_miniaod")
RULE = (
    "case = (back end, 1-2 generated C++ function/method specifications, a query calling them 1-4 times with drawn argument expressions in "
    "drawn positions (column, inside Select loop, inside Where filter, nested in another call's argument), 2-3 events) or a wrong-arity / "
    "wrong-call-style call (must raise). non-trivial = some parameter name occurs as a whole word inside another parameter's actual "
    "argument text or rendered C++, or the function is called >=2 times or nested; distinct by (specification, query)."
)

PARAM_POOL = ["pt", "eta", "e", "obj", "i_obj", "x", "x1", "x2", "phi", "j", "val", "a", "b", "m", "result_in", "nTrk"]
MAIN = {"atlas": ("Jets", "AntiKt4", "->"), "cms_aod": ("Muons", "muons", "."), "cms_miniaod": ("Muons", "slimmedMuons", ".")}
INT_M = {"atlas": "nTrk", "cms_aod": "nSeg", "cms_miniaod": "nSeg"}


@st.composite
def spec_strategy(draw, backend, idx):
    nparams = draw(st.integers(0, 4))
    is_method = draw(st.integers(0, 3)) == 0
    # a method that returns a collection of (const pointers to) objects - ATLAS: the jet's constituents
    objcoll = backend == "atlas" and draw(st.integers(0, 6)) == 0
    if objcoll:
        is_method = True
        nparams = min(nparams, 1)
    # a method template mentions obj->pt(): a parameter called pt would (correctly) be replaced there too
    pool = [p_ for p_ in PARAM_POOL if not (is_method and p_ == "pt")]
    params = draw(st.lists(st.sampled_from(pool), min_size=nparams, max_size=nparams, unique=True))
    mobj = draw(st.sampled_from(["obj_j", "self_", "o"])) if is_method else None
    res = draw(st.sampled_from(["result", "result", "my_r", "res_x", "result_1", "out"]))
    while res in params or res == mobj:
        res = res + "_r"
    ret_coll = draw(st.integers(0, 4)) == 0 or objcoll
    ret = draw(st.sampled_from(["double", "double", "float", "int"])) if not ret_coll else "double"
    if objcoll:
        ret = draw(st.sampled_from(["const xAOD::TrackParticle*", "const xAOD::TrackParticle *"]))
    nlines = draw(st.integers(1, 3))
    temps = []
    code = []
    meaning = []  # python statements
    avail = list(params)
    arrow = MAIN[backend][2]

    def term():
        opts = list(avail) + temps
        if mobj:
            opts.append("__OBJPT__")
        if not opts or draw(st.integers(0, 4)) == 0:
            return draw(st.sampled_from(["1.5", "2.0", "0.25", "3.0"]))
        return draw(st.sampled_from(opts))

    def expr():
        t = term()
        for _ in range(draw(st.integers(0, 2))):
            t = f"({t} {draw(st.sampled_from(['+', '-', '*']))} {term()})"
        return t

    for k in range(nlines - 1):
        tname = draw(st.sampled_from(["t", "tmp", "d_eta", "w"])) + str(k)
        e = expr()
        code.append(f"double {tname} = {e.replace('__OBJPT__', mobj + arrow + 'pt()' if mobj else '0')};")
        meaning.append((tname, e))
        temps.append(tname)
    if objcoll:
        code.append(f"std::vector<const xAOD::TrackParticle*> {res}; for (auto c_ : {mobj}{arrow}constituents()) {res}.push_back(c_);")
        meaning.append((res, "__OBJ__.constituents()"))
    elif ret_coll:
        e1, e2 = expr(), expr()
        code.append(f"std::vector<double> {res}; {res}.push_back({e1.replace('__OBJPT__', (mobj or '') + arrow + 'pt()')}); {res}.push_back({e2.replace('__OBJPT__', (mobj or '') + arrow + 'pt()')});")
        meaning.append((res, f"[{e1}, {e2}]"))
    elif draw(st.integers(0, 3)) == 0:
        # a statement that spans several of the supplied lines: the lines must arrive as they are (no ';' after the if)
        e1, e2, t = expr(), expr(), term()
        ctype = {"double": "double", "float": "float", "int": "double"}[ret]
        sub = lambda x: x.replace("__OBJPT__", (mobj or "") + arrow + "pt()")
        form = draw(st.sampled_from(["if-next-line", "if-next-line", "if-comment", "if-same-line", "if-else-braces", "brace-statement"]))
        if form == "brace-statement":
            # complete statements that END in a brace (a lambda, a braced initialiser) and lack their ';': they are statements, not block ends
            code.append("auto vf_twice = [](double q) { return 2 * q; }")
            code.append(f"double vf_pair[2] = {{{sub(e1)}, {sub(e2)}}}")
            code.append(f"{ctype} {res} = (({sub(t)}) > 1.5) ? vf_pair[1] : vf_pair[0];")
        elif form == "if-else-braces":
            # braces and an else on lines of their own ('} else' is not a complete statement either)
            code.append(f"{ctype} {res} = 0;")
            code.append(f"if ({sub(t)} > 1.5) {{")
            code.append(f"  {res} = {sub(e2)};")
            closing = draw(st.sampled_from(["} else", "} else {", "}"]))
            code.append(closing)
            if closing == "}":
                code.append("else")
            if closing.endswith("{"):
                code.append(f"  {res} = {sub(e1)};")
                code.append("}")
            else:
                code.append(f"  {res} = {sub(e1)}" + draw(st.sampled_from([";", ""])))
        if form not in ("if-else-braces", "brace-statement"):
            code.append(f"{ctype} {res} = {sub(e1)};")
            if form == "if-same-line":
                # the whole conditional statement on one line, with or without its semicolon
                code.append(f"if ({sub(t)} > 1.5) {res} = {sub(e2)}" + draw(st.sampled_from([";", ""])))
            else:
                code.append(f"if ({sub(t)} > 1.5)" + (" /* the large ones */" if form == "if-comment" else ""))
                code.append(f"  {res} = {sub(e2)}" + draw(st.sampled_from([";", ""])))
        meaning.append((res, f"(({e2}) if (({t}) > 1.5) else ({e1}))"))
    else:
        e = expr()
        ctype = {"double": "double", "float": "float", "int": "double"}[ret]
        code.append(f"{ctype} {res} = {e.replace('__OBJPT__', (mobj or '') + arrow + 'pt()')};")
        meaning.append((res, e))
    includes = draw(st.lists(st.sampled_from(["vf_extra_a.h", "vf_extra_b.h", "cmath", "vector"]), max_size=2, unique=True))
    if ret_coll and "vector" not in includes:
        includes.append("vector")
    name = f"vfFn{idx}"
    if not is_method and draw(st.integers(0, 5)) == 0:
        # the query's own function under the name of a function everyone knows: the query means its own
        name = draw(st.sampled_from([["round", "sqrt", "log"], ["pow", "abs", "fmax"], ["sin", "floor", "exp"]][idx % 3]))
    md = {"metadata_type": "add_cpp_function", "name": name, "include_files": includes, "arguments": params, "code": code, "return_type": ret if ret != "int" else "double"}
    if res != "result":
        md["result_name"] = res
    if ret_coll:
        md["return_is_collection"] = True
    elif draw(st.integers(0, 2)) == 0:
        md["return_is_collection"] = False  # (the flag spelt out: it is its value that counts, not its presence)
    if mobj:
        md["method_object"] = mobj
        md["instance_object"] = "xAOD::Jet_v1"
    return {"md": md, "name": name, "params": params, "meaning": meaning, "res": res, "is_method": is_method, "ret_coll": ret_coll, "ret": md["return_type"].replace(" *", "*"), "includes": includes, "mobj": mobj, "objcoll": objcoll}


def python_meaning(spec):
    params = spec["params"]

    def fn(*args, obj=None):
        env = {p: linq.force(a) for p, a in zip(params, args)}
        if obj is not None:
            env["__OBJPT__"] = obj.pt()
            env["__OBJ__"] = obj
        for name, e in spec["meaning"]:
            env[name] = eval(e, {"__builtins__": {}}, env)
        r = env[spec["res"]]
        if spec.get("objcoll"):
            return r
        if spec["ret_coll"]:
            return linq.Vec([float(x) for x in r], obj.rt.lazy if obj is not None else _rt_mode[0])
        return float(r) if spec["ret"] != "int" else float(r)

    return fn


_rt_mode = [False]


@st.composite
def cases(draw, backend):
    sch = standard_schema(backend)
    acc, bank, arrow = MAIN[backend]
    intm = INT_M[backend]
    nspecs = draw(st.integers(1, 2))
    specs = [draw(spec_strategy(backend, i)) for i in range(nspecs)]
    scalar_specs = [s for s in specs if not s["ret_coll"]]

    labels_extra = set()

    def arg(depth):
        k = draw(st.sampled_from(["m", "m", "m", "const", "expr", "nested", "first"]))
        if k == "first":
            # an argument whose evaluation opens a loop of its own (and leaves the translator in a deeper scope)
            vecm = {"atlas": "weights", "cms_aod": "chi2s", "cms_miniaod": "chi2s"}[backend]
            labels_extra.add("first-derived-argument")
            return f"j.{vecm}().First()"
        if k == "m":
            return "j." + draw(st.sampled_from(["pt", "eta", "phi", intm])) + "()"
        if k == "const":
            return draw(st.sampled_from(["1", "2.5", "0.5", "10"]))
        if k == "expr":
            return f"(j.{draw(st.sampled_from(['pt', 'eta']))}() + {draw(st.sampled_from(['1', 'j.phi()', '0.5']))})"
        if depth < 1 and scalar_specs:
            return call(draw(st.sampled_from(scalar_specs)), depth + 1)
        return "j.pt()"

    level = draw(st.sampled_from(["object", "event"]))

    def receiver():
        """the object a method-form function is called on: the loop variable, or any other expression that yields an object"""
        opts = ["j", "j", "j"]
        if backend == "atlas":
            opts.append("j.parent()")
        if level == "event":
            opts += [f"e.{acc}({bank!r})[0]", f"e.{acc}({bank!r}).First()"]
        r = draw(st.sampled_from(opts))
        if r != "j":
            labels_extra.add("receiver=" + ("link" if "parent" in r else "index" if "[0]" in r else "First"))
        return r

    def call(s, depth=0):
        args = ", ".join(arg(depth) for _ in s["params"])
        return f"{receiver()}.{s['name']}({args})" if s["is_method"] else f"{s['name']}({args})"

    mode = draw(st.sampled_from(["ok", "ok", "ok", "ok", "wrong-arity", "wrong-style"]))
    ncalls = draw(st.integers(1, 3))
    cols = []
    for _ in range(ncalls):
        s = draw(st.sampled_from(specs))
        c = call(s)
        if s.get("objcoll"):
            c = draw(st.sampled_from([f"{c}.Select(lambda c: c.pt()).Sum()", f"{c}.Count()", f"{c}.Where(lambda c: c.pt() > 1).Select(lambda c: c.d0()).Sum()"]))
        elif s["ret_coll"]:
            c = draw(st.sampled_from([f"{c}.Sum()", f"{c}.Count()", f"{c}.Select(lambda v: v * 2).Sum()"]))
        cols.append(c)
    filt = None
    if scalar_specs and draw(st.booleans()):
        filt = f"{call(draw(st.sampled_from(scalar_specs)))} > {draw(st.sampled_from(['0', '1.5', '-10']))}"
    expect_error = False
    if mode == "wrong-arity":
        s = draw(st.sampled_from(specs))
        n = len(s["params"]) + draw(st.sampled_from([1, -1])) if s["params"] else 1
        args = ", ".join(["j.pt()"] * max(n, 0))
        cols.append(f"j.{s['name']}({args})" if s["is_method"] else f"{s['name']}({args})")
        expect_error = True
    elif mode == "wrong-style":
        s = draw(st.sampled_from(specs))
        args = ", ".join(["j.pt()"] * len(s["params"]))
        cols.append(f"{s['name']}({args})" if s["is_method"] else f"j.{s['name']}({args})")
        expect_error = True
    ds = dataset_text(sch, [s["md"] for s in specs])
    body = "(" + ", ".join(cols) + ("," if len(cols) == 1 else "") + ")"
    src = f"e.{acc}({bank!r})" + (f".Where(lambda j: {filt})" if filt else "")
    if level == "event" and scalar_specs and not expect_error and draw(st.integers(0, 3)) == 0:
        # the value of ONE call flows on into two sibling loops of the next Select (the call has to be rendered in each, each time with a result variable of its own)
        c0 = call(draw(st.sampled_from(scalar_specs)))
        labels_extra.add("result-used-in-two-sibling-loops")
        text = (f"Select({ds}, lambda e: {src}.Select(lambda j: {c0}).Select(lambda v: e.{acc}({bank!r}).Where(lambda k: k.pt() > v).Count() + "
                f"e.{acc}({bank!r}).Where(lambda k: k.eta() > v).Count()))")
    elif level == "object":
        text = f"Select(SelectMany({ds}, lambda e: {src}), lambda j: {body})"
    else:
        text = f"Select({ds}, lambda e: {src}.Select(lambda j: {cols[0]}))" if len(cols) == 1 else f"Select({ds}, lambda e: ({', '.join(f'{src}.Select(lambda j: {c})' for c in cols)}))"
    evs = draw(events_strategy(sch, [(acc, bank)], n_min=2, n_max=3, null_links=False))
    if labels_extra:
        # keep First() defined most of the time: give every vector at least one element
        for ev in evs:
            for o in ev.objs.values():
                for kk, vv in o.vec.items():
                    if not vv:
                        vv.append(1.5)
    return {"backend": backend, "specs": specs, "text": text, "expect_error": expect_error, "evs": evs, "mode": mode, "ncalls": sum(text.count(s_["name"] + "(") for s_ in specs),
            "extra_labels": sorted(labels_extra)}


def template_regex(line: str, names: List[str]):
    """regex matching an emitted line that instantiates `line` with each whole-word name replaced by some text"""
    if not names:
        return re.compile(re.escape(line) + r";?$"), []
    pat = re.compile("|".join(rf"\b{re.escape(n)}\b" for n in sorted(names, key=len, reverse=True)))
    out = []
    pos = 0
    seen = []
    for m in pat.finditer(line):
        out.append(re.escape(line[pos : m.start()]))
        n = m.group(0)
        g = "g" + str(names.index(n))
        if g in seen:
            out.append(f"(?P={g})")
        else:
            out.append(f"(?P<{g}>.+?)")
            seen.append(g)
        pos = m.end()
    out.append(re.escape(line[pos:]))
    return re.compile("".join(out) + r";?$"), seen


def find_blocks(src: str, res_names) -> List[tuple]:
    """blocks `{ lines...; VAR = RES; }` (RES one of the functions' result names, VAR any variable): (lines, var, declaration of VAR, closed, RES).
    Found by structure only - the name the translator gives VAR is its own business."""
    lines = [l.strip() for l in src.split("\n")]
    lines = [l for l in lines if l]
    out = []
    alt = "|".join(re.escape(r) for r in sorted(set(res_names), key=len, reverse=True))
    for i, l in enumerate(lines):
        m = re.match(rf"^([A-Za-z_]\w*) = (?:static_cast<[^>]*>\()?({alt})\)?;$", l)
        if not m:
            continue
        j = i - 1
        body = []
        depth = 0  # braces of the supplied code itself (if (..) { .. } else { .. }) are balanced inside the block
        while j >= 0 and not (lines[j] == "{" and depth == 0):
            depth += lines[j].count("}") - lines[j].count("{")
            if depth < 0:
                body = None
                break
            body.append(lines[j])
            j -= 1
        if depth != 0:
            body = None
        closed = i + 1 < len(lines) and lines[i + 1] == "}"
        var = m.group(1)
        decl = [x for x in lines[: max(j, 0)] if re.match(rf"^.*\b{re.escape(var)};$", x)]
        out.append((list(reversed(body)) if body is not None else None, var, decl[-1] if decl else None, closed, m.group(2)))
    return out


def match_block(s, blk, rep):
    """does this block instantiate the specification of s?  Raises Violation (not yet reported) if not; returns the binding."""
    body, var, decl, closed, _res = blk
    names = list(s["params"]) + ([s["mobj"]] if s["mobj"] else [])
    if body is None or not closed:
        raise Violation("not-isolated", f"the code of {s['name']} is not enclosed in its own {{}} block ending with the result copy", rep)
    want_type = f"std::vector<{s['ret']}>" if s["ret_coll"] else s["ret"]
    if decl is None or not decl.startswith(want_type + " "):
        raise Violation("result-declaration", f"result variable {var} of {s['name']} is not declared before the block with type {want_type}: {decl!r}", rep)
    code = s["md"]["code"]
    if len(body) != len(code):
        raise Violation("block-lines", f"{s['name']}: block holds {body}, the specification has {len(code)} lines", rep)
    binding: Dict[str, str] = {}
    for tl, el in zip(code, body):
        tl = tl.strip()
        rx, groups = template_regex(tl.rstrip(";") if not tl.endswith(";") else tl[:-1], names)
        m = rx.match(el[:-1] if el.endswith(";") else el)
        if not m:
            raise Violation("substitution", f"{s['name']}: emitted line {el!r} is not the template {tl!r} with whole-word occurrences of {names} replaced", rep)
        for g in groups:
            n = names[int(g[1:])]
            if binding.setdefault(n, m.group(g)) != m.group(g):
                raise Violation("substitution", f"{s['name']}: parameter {n} replaced by {binding[n]!r} and by {m.group(g)!r} within one call", rep)
    return binding


def check_text(c, pkg, rep):
    src = pkg.files.get("query.cxx") or pkg.files.get("Analyzer.cc")
    overlaps = False
    used = [s for s in c["specs"] if s["name"] + "(" in c["text"]]
    if not used:
        return False
    blocks = find_blocks(src, [s["res"] for s in used])
    matched = {s["name"]: 0 for s in used}
    for blk in blocks:
        # the block must be an instance of (at least) one of the functions with this result name
        cands = [s for s in used if s["res"] == blk[4]]
        cands.sort(key=lambda s: not blk[1].startswith(s["name"]))  # message quality only
        first_err = None
        ok_any = False
        for s in cands:
            try:
                binding = match_block(s, blk, rep)
            except Violation as v:
                first_err = first_err or v
                continue
            # (two functions with the same template both count this block: sound, if weaker)
            matched[s["name"]] += 1
            ok_any = True
            names = list(s["params"]) + ([s["mobj"]] if s["mobj"] else [])
            # adversarial overlap: a parameter name occurs as a word inside another parameter's replacement
            for n, txt in binding.items():
                if any(o != n and re.search(rf"\b{re.escape(o)}\b", txt) for o in names):
                    overlaps = True
        if not ok_any and first_err is not None:
            # event-collection fetches are blocks of the same form (`{ ...; jets3 = result; }`): only a block whose copy target is
            # a number or a vector of numbers can be the result of one of the generated functions
            decl = blk[2]
            if decl is None or re.match(r"^(std::vector<\s*)?(double|float|int|bool|unsigned int|long)\b", decl):
                raise first_err
    for s in used:
        if not matched[s["name"]]:
            raise Violation("no-block", f"no isolated block with a result copy was emitted for {s['name']}", rep)
        for inc in s["includes"]:
            if f'#include "{inc}"' not in src:
                raise Violation("include-missing", f'{s["name"]} asks for #include "{inc}" which is not in the source', rep)
    return overlaps


def check(c):
    backend, text, evs = c["backend"], c["text"], c["evs"]
    sch = standard_schema(backend)
    rep = {"backend": backend, "query": text, "specs": [s["md"] for s in c["specs"]], "meanings": [s["meaning"] for s in c["specs"]], "expect_error": c["expect_error"],
           "events": [e.to_json() for e in evs], "spec_full": c["specs"]}
    r = enginea.execute(text, backend, evs, cxx.std_model(backend))
    if c["expect_error"]:
        if r.stage != "rejected":
            raise Violation("bad-call-accepted", f"a call with the wrong arity / call style was translated ({c['mode']})", rep)
        return False
    if r.stage == "rejected":
        raise Violation("rejected", f"valid use of an injected function rejected: {r.error}", rep)
    overlaps = check_text(c, r.pkg, rep)
    if r.stage != "ok":
        raise Violation(r.stage, f"{r.stage}: {r.error}", rep)
    env = {}
    methods = {}
    for s in c["specs"]:
        f = python_meaning(s)
        if s["is_method"]:
            methods[s["name"]] = (lambda f: (lambda obj, *a: f(*a, obj=obj)))(f)
        else:
            env[s["name"]] = f
    env["__methods__"] = methods
    ref = linq.evaluate(text, sch, evs, env)
    for k, (rf, ob) in enumerate(zip(ref, r.out["events"])):
        m = enginea.compare_event(rf, ob)
        if m:
            raise Violation("value", f"event {k + 1}: {m}", rep)
    return overlaps


def case_key(c):
    return jdump([c["backend"], c["text"], [e.to_json() for e in c["evs"]]])


def worker(payload):
    seed, n, deadline, backend = payload
    stats = Stats()

    def body(c):
        overlaps = check(c)
        nt = bool(overlaps) or c["ncalls"] >= 2 or c["expect_error"]
        labels = [f"backend={backend}", "mode=" + c["mode"], f"calls={min(c['ncalls'], 5)}"] + (["name-overlap"] if overlaps else []) + c.get("extra_labels", [])
        for s in c["specs"]:
            labels.append("method" if s["is_method"] else "function")
            if s["ret_coll"]:
                labels.append("returns-collection")
            if s.get("objcoll"):
                labels.append("returns-object-collection")
            if s["res"] != "result":
                labels.append("custom-result-name")
        stats.case(jdump([backend, c["text"]]), nt, sorted(set(labels)), {"backend": backend, "spec": c["specs"][0]["md"], "query": c["text"][-260:]})

    hyp_search(body, cases(backend), max_examples=n, seed=seed, stats=stats, deadline=deadline, key_fn=case_key, shrink_budget=60)
    return stats


BUILTIN_CASES = [
    ("atlas", "Select(SelectMany(DS, lambda e: e.Jets('AntiKt4')), lambda j: (DeltaR(j.eta(), j.phi(), j.phi(), j.eta()), DeltaR(1.0, j.eta(), j.phi() + 1, 0.5)))", [("Jets", "AntiKt4")], []),
    ("atlas", "Select(SelectMany(DS, lambda e: e.Jets('AntiKt4')), lambda j: (j.getAttributeFloat('emf'), j.getAttributeVectorFloat('emf').Sum(), j.getAttributeVectorFloat('w').Count()))", [("Jets", "AntiKt4")], ["emf", "w"]),
    ("cms_aod", "Select(SelectMany(DS, lambda e: e.Muons('muons')), lambda m: (isNonnull(m.globalTrack()), DeltaR(m.eta(), m.phi(), 0.5, m.eta())))", [("Muons", "muons")], []),
    ("cms_miniaod", "Select(SelectMany(DS, lambda e: e.Muons('slimmedMuons').Where(lambda m: isNonnull(m.globalTrack()))), lambda m: m.globalTrack().pt())", [("Muons", "slimmedMuons")], []),
]
BUILTIN_BAD = [
    ("atlas", "Select(SelectMany(DS, lambda e: e.Jets('AntiKt4')), lambda j: DeltaR(j.eta(), j.phi(), j.phi()))"),
    ("atlas", "Select(SelectMany(DS, lambda e: e.Jets('AntiKt4')), lambda j: j.DeltaR(j.eta(), j.phi(), j.phi(), 1))"),
    ("atlas", "Select(SelectMany(DS, lambda e: e.Jets('AntiKt4')), lambda j: getAttributeFloat('emf'))"),
    ("atlas", "Select(SelectMany(DS, lambda e: e.Jets('AntiKt4')), lambda j: j.getAttributeFloat('emf', 'x'))"),
    ("cms_aod", "Select(SelectMany(DS, lambda e: e.Muons('muons')), lambda m: isNonnull(m.globalTrack(), 1))"),
    # a function invoked like a method (the receiver would be dropped)
    ("cms_aod", "Select(SelectMany(DS, lambda e: e.Muons('muons')), lambda m: m.isNonnull(m.globalTrack()))"),
    ("cms_miniaod", "Select(SelectMany(DS, lambda e: e.Muons('slimmedMuons')), lambda m: m.pt().isNonnull(m.globalTrack()))"),
    ("atlas", "Select(SelectMany(DS, lambda e: e.Jets('AntiKt4')), lambda j: j.DeltaR(j.eta(), j.phi(), j.phi(), j.eta()))"),
]


def builtin_worker(payload):
    seed, n, deadline = payload
    stats = Stats()
    from hypothesis import strategies as st_

    for i, (be, body, uses, attrs) in enumerate(BUILTIN_CASES):
        sch = standard_schema(be)
        text = body.replace("DS", dataset_text(sch))

        def tbody(evs, be=be, text=text, sch=sch):
            rep = {"backend": be, "query": text, "events": [e.to_json() for e in evs], "builtin": True}
            r = enginea.execute(text, be, evs, cxx.std_model(be))
            if r.stage != "ok":
                raise Violation("builtin-" + r.stage, f"{r.stage}: {r.error}", rep)
            ref = linq.evaluate(text, sch, evs)
            for k, (rf, ob) in enumerate(zip(ref, r.out["events"])):
                m = enginea.compare_event(rf, ob)
                if m:
                    raise Violation("builtin-value", f"event {k + 1}: {m}", rep)
            stats.case(jdump([be, text, [e.to_json() for e in evs]]), True, ["builtin", f"backend={be}"], {"backend": be, "query": text[-200:]})

        hyp_search(tbody, events_strategy(sch, uses, n_min=2, n_max=3, attr_names=attrs), max_examples=n, seed=derive_seed(seed, i), stats=stats, deadline=deadline, shrink=False, max_rounds=1)
    for be, body in BUILTIN_BAD:
        from vf.xlate import translate

        text = body.replace("DS", dataset_text(standard_schema(be)))
        try:
            translate(text, be)
            stats.violation("builtin-bad-call-accepted", f"wrong arity / call style of a built-in accepted: {body}", {"backend": be, "query": text, "builtin_bad": True})
        except Exception:
            stats.case("bad" + body, True, ["builtin-bad-call"], {"backend": be, "query": body[-120:], "raised": True})
    return stats


def run(ctx: Ctx):
    ctx.rule = RULE
    ctx.assumptions = ["the function family is arithmetic over the parameters (its Python meaning is the same text evaluated by Python)",
                       "the number of emitted blocks is not asserted (func_adl may inline a lambda into several uses); every emitted block is checked"]
    for be in BACKENDS:
        cxx.std_model(be)
    total = ctx.n(320, 4800)
    shards = 15
    payloads = [(derive_seed(ctx.seed, "C11", i), max(1, total // shards), ctx.deadline, BACKENDS[i % 3]) for i in range(shards)]
    res = run_shards("vf.props.C11", "worker", payloads) + run_shards("vf.props.C11", "builtin_worker", [(derive_seed(ctx.seed, "C11b"), ctx.n(3, 30), ctx.deadline)])
    for st_ in res:
        ctx.stats.merge(st_)


def replay(case):
    if case.get("builtin_bad"):
        from vf.xlate import translate

        try:
            translate(case["query"], case["backend"])
            return [{"key": "builtin-bad-call-accepted", "what": "accepted"}]
        except Exception:
            return []
    evs = [Event.from_json(j) for j in case["events"]]
    if case.get("builtin"):
        be, text = case["backend"], case["query"]
        sch = standard_schema(be)
        r = enginea.execute(text, be, evs, cxx.std_model(be))
        if r.stage != "ok":
            return [{"key": "builtin-" + r.stage, "what": r.error}]
        for rf, ob in zip(linq.evaluate(text, sch, evs), r.out["events"]):
            m = enginea.compare_event(rf, ob)
            if m:
                return [{"key": "builtin-value", "what": m}]
        return []
    c = {"backend": case["backend"], "text": case["query"], "evs": evs, "specs": case["spec_full"], "expect_error": case["expect_error"], "mode": "replay", "ncalls": 1}
    try:
        check(c)
    except Violation as v:
        return [{"key": v.key, "what": v.what}]
    return []
