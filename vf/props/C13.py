"""C13 - arithmetic follows Python numerics on the declared value types.

The operator x operand-kind table is enumerated exhaustively (every run covers every cell); Hypothesis
draws the event data (values).  Cells are packed ~8 per program as per-jet columns; a program that is
rejected or does not compile is bisected to the cells.  Oracle: value == Python's value for the same
text; column type per the property (int-valued stays int, '/', '**', conditional floating, mixed ->
at least as wide, comparisons / not -> bool)."""
from __future__ import annotations

import itertools
from typing import Dict, List, Tuple

from hypothesis import strategies as st

from vf import cxx, enginea
from vf.core import Ctx, Stats, Violation, derive_seed, hyp_search, jdump, run_shards
from vf.gen.query import dataset_text
from vf.model.events import Event, events_strategy
from vf.model.schema import standard_schema
from vf.ref import linq

BACKEND = "atlas"
BANK = "AntiKt4"

RULE = (
    "cells = {+,-,*,/,%,**} x ordered pairs of operand kinds {int literal, int count, declared float, double, bool} (% only on "
    "non-negative integer kinds: '%' with a floating operand is a recorded finding), unary {+,-,not} x kinds, six comparisons x pairs, "
    "conditional x pairs, every two binary operators nested either way + unary minus / ** / not against them (double and positive-int operands), Sum/Count/Aggregate(int and float seeds)/Max / Min (values of any sign) over int, float and double sequences - all enumerated in "
    "every run; Hypothesis draws the events (values incl. negatives, zeros, ties, odd/even counts). non-trivial = a cell whose reference "
    "values over the drawn rows are not all equal or contain a non-integer; distinct by (cell, values)."
)

# operand kinds: text templates over the jet variable j (per-jet rows)
OPERANDS: Dict[str, List[Tuple[str, str]]] = {
    "lit": [("3", "int"), ("7", "int"), ("2", "int")],
    "cnt": [("j.constituents().Count()", "int"), ("j.nTrk()", "int")],
    "flt": [("j.emf()", "float")],
    "dbl": [("j.pt()", "double"), ("j.eta()", "double")],
    "bool": [("j.isGood()", "bool"), ("(j.nTrk() > 2)", "bool")],
}
NONNEG = {"lit": ["7", "3"], "cnt": ["j.constituents().Count()"]}
NONZERO = {
    "lit": ("2", "int"),
    "cnt": ("(j.constituents().Count() + 1)", "int"),
    "flt": ("(j.emf() * j.emf() + 1)", "float"),
    "dbl": ("(j.pt() * j.pt() + 1)", "double"),
    "bool": ("True", "bool"),
}
W = {"bool": -1, "int": 0, "float": 1, "double": 2}


def wider(a, b):
    return a if W[a] >= W[b] else b


def acceptable(kind: str):
    """column types the property allows for a result of Python kind `kind`"""
    return {"int": {"int"}, "bool": {"bool"}, "float": {"float", "double"}, "double": {"double"}}[kind]


def nest_cells():
    """two binary operators nested either way (precedence / associativity of the emitted C++), unary minus against binary operators, comparisons of
    comparisons, not over and/or: over a double triple and a positive int triple"""
    cells = []
    trip = {
        "dbl": ("j.pt()", "(j.eta() * j.eta() + 1)", "(j.pt() * j.pt() + 2)"),
        "int": ("(j.nTrk() + 7)", "(j.constituents().Count() + 1)", "3"),
    }
    for kind, (A, B, C) in trip.items():
        ops = ["+", "-", "*", "/"] + (["%"] if kind == "int" else [])
        for o1, o2 in itertools.product(ops, ops):
            rk = "double" if (kind == "dbl" or "/" in (o1, o2)) else "int"
            # right-nested: A o1 (B o2 C); the right operand of / and % must stay positive
            # ('%' with a floating operand - here: a quotient - is the recorded finding mod-float: left out)
            if o1 == "%" and o2 == "/":
                continue
            if not (o1 in ("/", "%") and o2 in ("-", "%")):
                cells.append((f"nest-r:{kind}:{o1}({o2})", f"({A} {o1} ({B} {o2} {C}))", rk))
            # left-nested: (A o1 B) o2 C
            if o1 in ("/", "-") and o2 == "%":
                continue  # a quotient (mod-float) or a possibly negative difference (outside the property's domain) as the left operand of %
            cells.append((f"nest-l:{kind}:({o1}){o2}", f"(({A} {o1} {B}) {o2} {C})", rk))
        for o in ("+", "-", "*", "/"):
            rk = "double" if (kind == "dbl" or o == "/") else "int"
            cells.append((f"neg-of:{kind}:{o}", f"(-({A} {o} {B}))", rk))
            cells.append((f"op-neg:{kind}:{o}", f"({A} {o} (-{B}))", rk))
            cells.append((f"neg-op:{kind}:{o}", f"((-{A}) {o} {B})", rk))
        cells.append((f"neg-pow:{kind}", f"(-{B} ** 2)", "double"))
        cells.append((f"pow-of-neg:{kind}", f"((-{B}) ** 2)", "double"))
        cells.append((f"pow-neg-exp:{kind}", f"({B} ** -2)", "double"))
        cells.append((f"pow-chain:{kind}", f"(2 ** {C if kind == 'int' else '2'} ** 2)", "double"))
        cells.append((f"cmp-of-cmp:{kind}", f"(({A} < {B}) == ({C} < {B}))", "bool"))
        cells.append((f"not-and:{kind}", f"(not ({A} > {B} and {C} > {B}))", "bool"))
        cells.append((f"not-or:{kind}", f"(not ({A} > {B} or {C} > {B}))", "bool"))
        cells.append((f"sub-sub:{kind}", f"({A} - {B} - {C})", "double" if kind == "dbl" else "int"))
        cells.append((f"div-div:{kind}", f"({A} / {B} / {C})", "double"))
        cells.append((f"ifexp-arith:{kind}", f"(({A} if {A} > {B} else {B}) * 2)", "double"))
    return cells


def build_cells():
    cells = []  # (id, text, expected result kind or None)
    kinds = list(OPERANDS)
    for ka, kb in itertools.product(kinds, kinds):
        a, ta = OPERANDS[ka][0]
        b, tb = OPERANDS[kb][-1]
        for op in ("+", "-", "*"):
            rk = wider(wider(ta, tb), "int")
            cells.append((f"{op}:{ka},{kb}", f"({a} {op} {b})", rk))
        nz, tnz = NONZERO[kb]
        cells.append((f"/:{ka},{kb}", f"({a} / {nz})", "double"))
        # ** : base of kind ka, exponent of kind kb
        if kb == "lit":
            for e in ("2", "3"):
                cells.append((f"**{e}:{ka}", f"({a} ** {e})", "double"))
            cells.append((f"**-1:{ka}", f"({NONZERO[ka][0]} ** -1)", "double"))
        elif kb in ("cnt", "bool"):
            cells.append((f"**:{ka},{kb}", f"({NONZERO[ka][0]} ** {OPERANDS[kb][0][0]})", "double"))
        else:
            # floating exponent up to +-64: keep the base small so the result stays far from overflow
            base = {"lit": "2", "cnt": "(j.constituents().Count() + 1)", "flt": "(j.emf() * 0 + 1.5)", "dbl": "(j.pt() * 0 + 1.25)", "bool": "(j.isGood() + 1)"}[ka]
            cells.append((f"**:{ka},{kb}", f"({base} ** {OPERANDS[kb][0][0]})", "double"))
        if ka in NONNEG and kb in ("lit", "cnt"):
            for na in NONNEG[ka]:
                cells.append((f"%:{ka},{kb}:{na}", f"({na} % {NONZERO[kb][0]})", "int"))
        for op in ("<", "<=", ">", ">=", "==", "!="):
            cells.append((f"{op}:{ka},{kb}", f"({a} {op} {b})", "bool"))
        cells.append((f"ifexp:{ka},{kb}", f"({a} if j.pt() > 0 else {b})", "double"))
    for k in kinds:
        for a, t in OPERANDS[k]:
            cells.append((f"u+:{k}:{a}", f"(+{a})", "int" if t == "bool" else t))
            cells.append((f"u-:{k}:{a}", f"(-{a})", "int" if t == "bool" else t))
            cells.append((f"not:{k}:{a}", f"(not {a})", "bool"))
    seqs = [
        ("j.constituents().Select(lambda c: c.nHits())", "int"),
        ("j.weights().Select(lambda w: w * 1)", "float"),
        ("j.sumPt().Select(lambda w: w * 1)", "double"),
        ("j.constituents().Select(lambda c: c.charge())", "float"),
        ("j.constituents().Select(lambda c: c.pt())", "double"),
    ]
    for s, t in seqs:
        cells.append((f"Sum:{t}:{s[:16]}", f"{s}.Sum()", t))
        cells.append((f"Count:{t}:{s[:16]}", f"{s}.Count()", "int"))
        cells.append((f"Max0:{t}:{s[:16]}", f"{s}.Select(lambda v: abs(v)).Max()", "double"))
        cells.append((f"Min0:{t}:{s[:16]}", f"{s}.Select(lambda v: 0 - abs(v)).Min()", "double"))
        # ... and of values of any sign (the maximum of negative numbers is negative, the minimum of positive ones positive)
        cells.append((f"Max:{t}:{s[:16]}", f"{s}.Select(lambda v: v - 70).Max()", "double"))
        cells.append((f"Min:{t}:{s[:16]}", f"{s}.Select(lambda v: abs(v) + 3).Min()", "double"))
        cells.append((f"MaxAny:{t}:{s[:16]}", f"{s}.Max()", "double"))
        # seeds that are not literals: an int-typed method value, a count, an int method with a declared tree type (the type belongs to the method's
        # own leaf, not to what is folded from it)
        for seed, ts in (("j.nTrk()", "int"), ("j.constituents().Count()", "int"), ("j.nRaw()", "int"), ("-(j.constituents().Count())", "int"),
                         ("-(2.5 if j.nTrk() > 1 else 5.0)", "double"), ("+(j.constituents().Count() + 1)", "int")):
            cells.append((f"AggSeed+:{t}:{seed[:12]}:{s[:16]}", f"{s}.Aggregate({seed}, lambda acc, v: acc + v)", wider(ts, t)))
        for seed, ts in (("0", "int"), ("10", "int"), ("0.5", "double"), ("2.0", "double")):
            cells.append((f"Agg+:{t}:{seed}:{s[:16]}", f"{s}.Aggregate({seed}, lambda acc, v: acc + v)", wider(ts, t)))
            cells.append((f"Agg*:{t}:{seed}:{s[:16]}", f"{s}.Aggregate({seed}, lambda acc, v: acc * 2 + v)", wider(ts, t)))
            cells.append((f"Aggcount:{t}:{seed}:{s[:16]}", f"{s}.Aggregate({seed}, lambda acc, v: acc + 1)", ts))
    # a Min / Max inside the source of another one (each starts from its own identity)
    cells.append(("MaxOfMin", "j.constituents().Select(lambda c: j.weights().Select(lambda w: abs(w) + 3 + c.pt() * 0).Min()).Max()", "double"))
    cells.append(("MinOfMax", "j.constituents().Select(lambda c: j.weights().Select(lambda w: 0 - abs(w) - 3 + c.pt() * 0).Max()).Min()", "double"))
    cells.append(("MaxBehindMinFilter", "j.constituents().Where(lambda c: j.weights().Select(lambda w: abs(w) + 3).Min() > 1).Select(lambda c: c.pt() - 500).Max()", "double"))
    # sums / aggregates mixing kinds inside the fold
    cells.append(("Agg-mixed-1", "j.constituents().Select(lambda c: c.nHits()).Aggregate(0, lambda acc, v: acc + v / 2)", "double"))
    cells.append(("Agg-mixed-2", "j.constituents().Select(lambda c: c.nHits()).Aggregate(1, lambda acc, v: acc + v * 0.5)", "double"))
    cells.append(("Sum-of-division", "j.constituents().Select(lambda c: c.nHits() / 2).Sum()", "double"))
    cells.append(("Sum-of-int-product", "j.constituents().Select(lambda c: c.nHits() * 3).Sum()", "int"))
    cells.append(("count/2", "(j.constituents().Count() / 2)", "double"))
    cells.append(("nested-int", "((j.nTrk() + 3) * (j.nTrk() - 2))", "int"))
    cells.append(("nested-mixed", "((j.nTrk() + 3) * j.emf() + j.pt())", "double"))
    cells.append(("int-then-div", "((j.nTrk() + 3) / (j.constituents().Count() + 1))", "double"))
    cells.extend(nest_cells())
    seen = set()
    out = []
    for c in cells:
        if c[0] not in seen:
            seen.add(c[0])
            out.append(c)
    return out


CELLS = build_cells()
CELL_BY_ID = {c[0]: c for c in CELLS}


def make_query(cells) -> str:
    sch = standard_schema(BACKEND)
    body = "{" + ", ".join(f"'c{i}': {c[1]}" for i, c in enumerate(cells)) + "}"
    return f"Select(SelectMany({dataset_text(sch)}, lambda e: e.Jets({BANK!r})), lambda j: {body})"


def run_cells(cells, evs):
    """returns list of (cell, problem or None, values)"""
    sch = standard_schema(BACKEND)
    q = make_query(cells)
    r = enginea.execute(q, BACKEND, evs, cxx.std_model(BACKEND))
    if r.stage != "ok":
        if len(cells) == 1:
            return [(cells[0], f"{r.stage}: {r.error}", None)]
        out = []
        for c in cells:
            out.extend(run_cells([c], evs))
        return out
    ref = linq.evaluate(q, sch, evs)
    book = [b for b in r.out["book"]]
    res = []
    for i, c in enumerate(cells):
        prob = None
        vals = []
        # column type
        if i >= len(book):
            prob = "column not booked"
        else:
            ty = book[i]["type"]
            if c[2] is not None and ty not in acceptable(c[2]):
                prob = f"column type {ty} but the property requires {sorted(acceptable(c[2]))} for {c[1]}"
        for rf, ob in zip(ref, r.out["events"]):
            e = rf["eager"]
            if "undefined" in e:
                continue
            if "rows" not in e or ob["fault"] is not None or ob["status_failure"]:
                prob = prob or f"unexpected outcome ref={list(e)[:1]} job fault={ob['fault']}"
                continue
            exp_rows = [linq.row_columns(x) for x in e["rows"]]
            obs_rows = [row for _, row in ob["rows"]]
            if len(exp_rows) != len(obs_rows):
                prob = prob or "row count mismatch"
                continue
            for a, b in zip(exp_rows, obs_rows):
                vals.append(a[i])
                if not linq.values_equal(a[i], b[i]) and prob is None:
                    prob = f"value: Python gives {a[i]!r}, job gives {b[i]!r} for {c[1]}"
        res.append((c, prob, vals))
    return res


def key_of(cell_id: str) -> str:
    op = cell_id.split(":")[0]
    return "cell-" + "".join(ch if ch.isalnum() else "_" for ch in op)


def worker(payload):
    seed, chunks, deadline, rounds = payload
    stats = Stats()
    sch = standard_schema(BACKEND)
    evstrat = events_strategy(sch, [("Jets", BANK)], n_min=3, n_max=4)

    for rnd in range(rounds):
        for ci, chunk in enumerate(chunks):
            cells = [CELL_BY_ID[i] for i in chunk]

            def body(evs, cells=cells):
                for c, prob, vals in run_cells(cells, evs):
                    nt = vals is not None and (len({repr(v) for v in vals}) >= 2 or any(isinstance(v, float) and v != int(v) for v in vals if v == v and abs(v) < 1e15))
                    stats.case(jdump([c[0], vals]), bool(nt), ["op=" + c[0].split(":")[0]], {"cell": c[0], "expr": c[1], "python_values": (vals or [])[:6]})
                    if prob:
                        raise Violation(key_of(c[0]), f"cell {c[0]}: {prob}", {"cell": c[0], "expr": c[1], "events": [e.to_json() for e in evs]})

            hyp_search(body, evstrat, max_examples=3, seed=derive_seed(seed, rnd, ci), stats=stats, deadline=deadline, shrink=False, max_rounds=1)
    return stats


def run(ctx: Ctx):
    ctx.rule = RULE
    ctx.assumptions = ["model of the ATLAS framework (vf/model)", "relative tolerance 1e-6 on floating values", "column type read from TTree::Branch<T> at booking"]
    cxx.std_model(BACKEND)
    ids = [c[0] for c in CELLS]
    per = 8
    chunks = [ids[i : i + per] for i in range(0, len(ids), per)]
    shards = 16
    rounds = ctx.n(1, 8)  # x3 examples per chunk (the first Hypothesis example is the all-minimal one)
    payloads = [(derive_seed(ctx.seed, "C13", i), chunks[i::shards], ctx.deadline, rounds) for i in range(shards)]
    for st_ in run_shards("vf.props.C13", "worker", payloads):
        ctx.stats.merge(st_)
    ctx.stats.extra["cells_in_table"] = len(CELLS)
    ctx.stats.extra["table_enumerated_completely"] = True


def replay(case):
    evs = [Event.from_json(j) for j in case["events"]]
    cell = CELL_BY_ID.get(case["cell"]) or (case["cell"], case["expr"], case.get("kind"))
    if "expr" in case and cell[1] != case["expr"]:
        cell = (case["cell"], case["expr"], case.get("kind"))
    out = []
    for c, prob, vals in run_cells([cell], evs):
        if prob:
            out.append({"key": key_of(c[0]), "what": f"cell {c[0]}: {prob}"})
    return out
