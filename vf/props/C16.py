"""C16 - runner.sh honours its flags and never reports success after a failed step.

Stateful (Hypothesis RuleBasedStateMachine).  The three RENDERED runner.sh (from a real translation:
real mode bits and companion files) run unmodified in a throw-away jail (unshare -m + chroot) whose
PATH holds stub tools that log every invocation, fail on demand, and write an ANALYSIS.root holding a
token made of the invocation number and the filelist.txt they saw.  Rules issue invocations with drawn
flag words, -d / -o values and at most one injected fault; a model (fresh / partial / built) predicts
exit status, which tools run, what the job reads and where this run's output must (not) be."""
from __future__ import annotations

import os
from typing import Any, Dict, List, Optional

import hypothesis
from hypothesis import HealthCheck, Phase, settings
from hypothesis import strategies as st
from hypothesis.stateful import RuleBasedStateMachine, initialize, precondition, rule, run_state_machine_as_test

from vf.core import Ctx, HarnessError, Stats, Violation, derive_seed, jdump, run_shards
from vf.jail import Jail, jail_available
from vf.xlate import BACKENDS, translate

RULE = (
    "case = history of 1-6 invocations of one back end's rendered runner.sh in one jail: flag words from {none, -c, -r, -d f, -o dir|file, "
    "combinations, unknown flag, missing option argument, stray argument} x optional single fault (the named step fails when next reached: "
    "environment setup, cmake/make | mkedanlzr/scram, the job, sudo, conversion, final copy; conversion and copy may also fail after they have begun to write their output file, the job after it has written its; the job may report success without writing anything). non-trivial = history with a successful build "
    "and >=2 runs, or a fault injected into a step that was actually reached; distinct by (back end, history)."
)

QUERIES = {
    "atlas": "Select(EventDataset('ds'), lambda e: e.EventInfo('EventInfo').runNumber())",
    "cms_aod": "Select(EventDataset('ds'), lambda e: e.Muons('muons').Count())",
    "cms_miniaod": "Select(EventDataset('ds'), lambda e: e.Muons('slimmedMuons').Count())",
}
SETUP = {"atlas": "release_setup", "cms_aod": "entrypoint", "cms_miniaod": "entrypoint"}
BUILD = {"atlas": ["cmake", "make"], "cms_aod": ["mkedanlzr", "scram"], "cms_miniaod": ["mkedanlzr", "scram"]}
JOB = {"atlas": "python", "cms_aod": "cmsRun", "cms_miniaod": "cmsRun"}
ALL_TOOLS = {"atlas": ["release_setup", "cmake", "make", "sudo", "python", "cp-final"], "cms_aod": ["entrypoint", "mkedanlzr", "scram", "cmsRun", "root"],
             "cms_miniaod": ["entrypoint", "mkedanlzr", "scram", "cmsRun", "root"]}

_pkg_cache: Dict[str, Any] = {}


def package(backend):
    if backend not in _pkg_cache:
        _pkg_cache[backend] = translate(QUERIES[backend], backend)
    return _pkg_cache[backend]


_current: Dict[str, Any] = {}


def expected_tools(backend, state, compile_, run, calib):
    """(sequence of tool invocations the script must make - None = not specified -, state after, success?) absent faults"""
    seq = [SETUP[backend]]
    st_ = state
    if compile_:
        if state != "fresh":
            return seq, state, False  # mkdir of the build area fails: a previous (partial) build is there
        seq += BUILD[backend]
        st_ = "built"
    else:
        if state == "fresh":
            return seq, state, False  # -r without any previous build: cd into the build area fails
        if state == "partial":
            # how far an invocation against a half-made build gets depends on the tools; a run cannot succeed
            return None, state, (False if run else None)
    if run:
        if backend == "atlas":
            seq += (["sudo"] if calib else []) + ["python", "cp-final"]
        else:
            seq += ["cmsRun", "root", "cp-final"]  # (whether the converted file is copied or written in place is the script's business: see 'missing' below)
    return seq, st_, True


class Runner(RuleBasedStateMachine):
    backend = "atlas"

    def __init__(self):
        super().__init__()
        self.calib = _current["calib"]
        pkg = package(self.backend)
        self.jail = Jail(pkg.files, self.backend, pkg.info.main_script, calib_cache=self.calib)
        os.makedirs(self.jail.path("/results2"), exist_ok=True)
        os.makedirs(self.jail.path("/work/relout"), exist_ok=True)  # a destination given relative to the calling directory (/work)
        # input files whose names hold characters the shell treats specially: -d names ONE file, whatever else lies next to it
        for fn in ("run1.root", "run[1].root", "a  b.root"):
            open(self.jail.path("/data/" + fn), "w").write("x")
        self.state = "fresh"
        self.history: List[dict] = []
        self.tokens_at: Dict[str, Optional[str]] = {}
        _current["machine"] = self

    @rule(
        flags=st.sampled_from(["", "", "-c", "-r", "-r", "-c -r", "-x", "-d", "-c extra", "-r extra", "-o", "--help", "-cr"]),
        dfile=st.sampled_from([None, None, "/data/a.root", "root://host//b.root", "/data/with space.root", "reldata/c.root", "/data/run[1].root", "/data/a  b.root", "/data/*.root"]),
        odir=st.sampled_from([None, None, "/results2", "/results/renamed.root", "/out2", "relout"]),
        fault=st.sampled_from([None, None, None, "setup", "build0", "build1", "job", "sudo", "convert", "copy", "job-silent", "convert-partial", "copy-partial", "job-late"]),
    )
    def invoke_rule(self, flags, dfile, odir, fault):
        self.invoke(flags, dfile, odir, fault)

    def invoke(self, flags, dfile, odir, fault):
        be = self.backend
        args = flags.split() if flags else []
        bad_flag = any(a in ("-x", "--help") for a in args) or (args and args[-1] in ("-d", "-o"))
        if not bad_flag:
            if dfile is not None:
                args = args[:1] + ["-d", dfile] + args[1:] if args and args[0].startswith("-") else ["-d", dfile] + args
            if odir is not None:
                args = ["-o", odir] + args
        stray = (not bad_flag) and any(a == "extra" for a in args)
        compile_ = not any(a in ("-r", "-cr") for a in args) if not (bad_flag or stray) else False
        run = not any(a in ("-c", "-cr") for a in args) if not (bad_flag or stray) else False
        # job-silent: the analysis job reports success but writes no output (nothing is delivered by this run: exit 0 is then impossible to justify)
        drawn_fault = fault
        silent = fault == "job-silent"
        if silent:
            fault = None
        # convert-partial / copy-partial: the step fails after it has begun to write where it was told to write
        # job-late: the analysis job fails after its output file has been written (a crash while finalising)
        partial = fault in ("convert-partial", "copy-partial", "job-late")
        if partial:
            fault = fault.split("-")[0]
        tool = {None: None, "setup": SETUP[be], "build0": BUILD[be][0], "build1": BUILD[be][1], "job": JOB[be], "sudo": "sudo" if be == "atlas" else None,
                "convert": "root" if be != "atlas" else None, "copy": "cp-final"}[fault]
        dest0 = odir or "/results"
        if not dest0.startswith("/"):
            dest0 = "/work/" + dest0
        before = self.jail.read(dest0 if dest0.endswith(".root") else dest0 + "/ANALYSIS.root")
        rc, log, out = self.jail.invoke(args, plan=(JOB[be] + ":silent") if silent else ((tool + ":partial") if (partial and tool) else tool))
        silent = silent and any(l.startswith("SILENT ") for l in log)
        n = self.jail.invocations
        rep = {"backend": be, "calib": self.calib, "history": self.history + [{"args": args, "fault": tool, "mode": drawn_fault}]}
        tools_run = [l.split(" ")[0] for l in log if not l.startswith(("JOB", "FAULT", "SILENT"))]
        jobs = [l for l in log if l.startswith("JOB ")]
        dest = odir or "/results"
        if not dest.startswith("/"):
            dest = "/work/" + dest  # relative to the directory runner.sh was called from
        dest_file = dest if dest.endswith(".root") else dest + "/ANALYSIS.root"
        content = self.jail.read(dest_file)
        mine = content is not None and f"TOKEN {n} " in content
        stats: Stats = _current["stats"]

        def viol(key, what):
            sup = _current["suppressed"]
            if key in sup:
                sup[key] += 1
                return
            raise Violation(key, f"{be} invocation {n} `runner.sh {' '.join(args)}`" + (f" with {tool} failing" if tool else "") + f" (state {self.state}): {what}", rep)

        reached = False
        if bad_flag:
            if rc != 10:
                viol("bad-flag-exit", f"exit {rc}, expected 10")
            if tools_run:
                viol("bad-flag-ran", f"tools ran despite the bad flag: {tools_run}")
        elif stray:
            if rc != 1:
                viol("stray-exit", f"exit {rc}, expected 1")
            if tools_run:
                viol("stray-ran", f"tools ran despite stray arguments: {tools_run}")
        else:
            seq, new_state, ok = expected_tools(be, self.state, compile_, run, self.calib)
            if seq is None:
                exp_seq = None
            elif tool is not None and tool in seq and any(l.startswith("FAULT ") for l in log):
                reached = True
                cut = seq.index(tool) + 1
                exp_seq = seq[:cut]
                ok = False
                if compile_ and self.state == "fresh" and tool != SETUP[be]:
                    new_state = "partial" if tool in BUILD[be] else "built"
                elif tool == SETUP[be]:
                    new_state = self.state
            else:
                exp_seq = seq
                if not ok and compile_ and self.state == "fresh":
                    new_state = "partial"
            if silent and ok is True:
                ok = None  # the job produced nothing: failing is right, succeeding needs this run's output at the destination (checked below)
            # which tools exactly a script calls is its own business; the property constrains only:
            #  - the exit status and what is (not) delivered (checked below),
            #  - no job with -c, no build tool with -r (checked below),
            #  - without a failure every phase that was asked for must have happened.
            faulted = any(l.startswith("FAULT ") for l in log)
            if exp_seq is not None and not faulted and ok is True:
                missing = [t for t in exp_seq if t not in tools_run and t not in ("sudo",) and not (t == "cp-final" and be != "atlas")]
                if missing:
                    viol("phase-skipped", f"the invocation should have run {exp_seq}; {missing} never ran (ran: {tools_run})")
            if ok is True and rc != 0:
                viol("spurious-failure", f"exit {rc} although every step succeeded; output tail: {out[-300:]!r}")
            if ok is False and rc == 0:
                viol("success-after-failed-step", "exit 0 although a step failed / was impossible")
            if rc == 0 and run:
                if not mine:
                    viol("output-not-delivered", f"exit 0 but {dest_file} does not hold this run's output (content {content!r})")
                want_files = ((dfile if (dfile.startswith("/") or "://" in dfile) else "/work/" + dfile) + ",") if dfile is not None else "/data/shipped.root,"
                if not jobs or not jobs[-1].endswith(" " + want_files):
                    viol("wrong-input", f"the job read {jobs}, expected exactly {want_files!r}")
                if be != "atlas" and content is not None and not content.startswith("CONVERTED "):
                    viol("not-converted", f"delivered file was not converted: {content!r}")
            if rc != 0 and mine:
                viol("fresh-output-after-failure", f"exit {rc} but {dest_file} holds this run's output")
            if rc != 0 and content is not None and content != before:
                # (whatever was there before may stay, or go; a NEW file - empty, truncated - is a fresh output of a run that failed)
                viol("fresh-output-after-failure", f"exit {rc} but {dest_file} was (re)written by this run: {content[:40]!r} (before: {None if before is None else before[:40]!r})")
            if not run and jobs:
                viol("job-ran-with-c", "the job was started although -c was given")
            if not run and mine:
                viol("delivered-with-c", "an output was delivered although -c was given")
            if not compile_ and any(t in BUILD[be] for t in tools_run):
                viol("built-with-r", f"build tools ran although -r was given: {tools_run}")
            self.state = new_state
        self.history.append({"args": args, "fault": tool, "mode": drawn_fault, "rc": rc, "reached": reached})
        runs_ok = sum(1 for h in self.history if h["rc"] == 0 and "-c" not in h["args"] and "-cr" not in h["args"] and not any(a in ("-x", "--help", "extra") for a in h["args"]))
        nt = (self.state == "built" and runs_ok >= 2) or any(h["reached"] for h in self.history)
        labels = [f"backend={be}", "flags=" + (flags or "none"), "fault=" + str(fault), f"exit={rc if rc in (0, 1, 10) else 'other'}", "state=" + self.state] + (["fault-reached"] if reached else [])
        stats.case(jdump([be, self.calib, [(h["args"], h["fault"]) for h in self.history]]), nt, labels,
                   {"backend": be, "history": [f"runner.sh {' '.join(h['args'])}" + (f" [fault: {h['fault']}]" if h["fault"] else "") + f" -> exit {h['rc']}" for h in self.history]})

    @precondition(lambda self: self.state == "built")
    @rule(
        dfile=st.sampled_from([None, "/data/a.root", "/data/b.root", "root://host//b.root", "reldata/c.root", "/data/run[1].root", "/data/a  b.root"]),
        odir=st.sampled_from([None, "/results2", "/results/renamed.root", "/out2", "relout"]),
        fault=st.sampled_from([None, "job", "job", "convert", "copy", "sudo", "setup", None, "job-silent", "job-silent", "convert-partial", "copy-partial", "convert-partial", "job-late", "job-late"]),
    )
    def rerun(self, dfile, odir, fault):
        """run-only invocations against an existing build (where stale outputs and inputs of earlier runs lie around)"""
        self.invoke("-r", dfile, odir, fault)

    def teardown(self):
        self.jail.cleanup()


def machine_for(backend):
    return type("Runner_" + backend, (Runner,), {"backend": backend})


def worker(payload):
    seed, n, deadline, backend, calib, shrink = payload
    stats = Stats()
    _current["stats"] = stats
    _current["calib"] = calib
    suppressed: Dict[str, int] = {}
    _current["suppressed"] = suppressed
    remaining, rnd = n, 0
    M = machine_for(backend)
    while remaining > 0 and rnd < 5:
        st_ = settings(max_examples=remaining, stateful_step_count=6, database=None, deadline=None, derandomize=False, report_multiple_bugs=False,
                       suppress_health_check=list(HealthCheck), print_blob=False, verbosity=hypothesis.Verbosity.quiet,
                       phases=[Phase.generate, Phase.target] + ([Phase.shrink] if shrink else []))
        before = stats.evaluations
        try:
            run_state_machine_as_test(hypothesis.seed(derive_seed(seed, rnd))(M), settings=st_)
            remaining = 0
        except Violation as v:
            stats.violation(v.key, v.what, v.replay)
            suppressed[v.key] = 0
            remaining -= max(1, (stats.evaluations - before) // 3)
        finally:
            m = _current.get("machine")
            if m is not None:
                m.jail.cleanup()
        rnd += 1
    for k, c in suppressed.items():
        if c:
            stats.excluded["repeat-of-" + k] += c
    return stats


def run(ctx: Ctx):
    ctx.rule = RULE
    if not jail_available():
        raise HarnessError("mount namespaces (unshare -m) are not available: cannot build the jail for runner.sh")
    ctx.assumptions = ["the real tools are replaced by stubs that log, fail on demand and emulate only the files the scripts look at",
                       "xrdcp destinations are not exercised", "one jail = one container: invocations of a history share the working directory"]
    total = ctx.n(512, 9600)
    shards = 16
    payloads = []
    for i in range(shards):
        be = BACKENDS[i % 3]
        payloads.append((derive_seed(ctx.seed, "C16", i), max(1, total // shards), ctx.deadline, be, (i // 3) % 2 == 1, not ctx.quick))
    for st_ in run_shards("vf.props.C16", "worker", payloads):
        ctx.stats.merge(st_)
    ctx.stats.extra["jail"] = "unshare -m + chroot"


def replay(case):
    be = case["backend"]
    _current["calib"] = case.get("calib", False)
    _current["stats"] = Stats()
    _current["suppressed"] = {}
    m = machine_for(be)()
    out = []
    try:
        for h in case["history"]:
            args = list(h["args"])
            # re-issue through the same rule logic: reconstruct the drawn parameters
            fault_tool = h.get("fault")
            rev = {SETUP[be]: "setup", BUILD[be][0]: "build0", BUILD[be][1]: "build1", JOB[be]: "job", "sudo": "sudo", "root": "convert", "cp-final": "copy", None: None}
            dfile = args[args.index("-d") + 1] if "-d" in args and args.index("-d") + 1 < len(args) and args[-1] != "-d" else None
            odir = args[args.index("-o") + 1] if "-o" in args and args.index("-o") + 1 < len(args) and args[-1] != "-o" else None
            rest = []
            skip = False
            for i, a in enumerate(args):
                if skip:
                    skip = False
                    continue
                if a in ("-d", "-o") and i + 1 < len(args):
                    skip = True
                    continue
                rest.append(a)
            try:
                m.invoke(" ".join(rest), dfile, odir, h["mode"] if "mode" in h else rev.get(fault_tool))
            except Violation as v:
                out.append({"key": v.key, "what": v.what})
                break
    finally:
        m.teardown()
    return out
