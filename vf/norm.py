"""Package text comparison modulo the numbering of generated names (engine B).

Two rendered packages are *equal up to numbering* iff, file by file, their token streams have the
same length and every differing token pair is a pair of identifiers that (a) is not a member /
qualified name (not preceded by '.', '->' or '::'), (b) both end in digits and share the
digit-stripped stem, and (c) the induced renaming is a bijection consistent over the whole package.
Inside string literals only func_adl's fresh lambda names (arg_N) may differ, except the First()
diagnostic, whose payload (the unparsed query) is compared as a Python AST modulo lambda parameter
names."""
from __future__ import annotations

import ast
import re
from typing import Dict, List, Optional, Tuple

TOKEN = re.compile(r'''"(?:\\.|[^"\\])*"|'(?:\\.|[^'\\])*'|[A-Za-z_]\w*|\d+\.\d*(?:[eE][+-]?\d+)?|\.\d+(?:[eE][+-]?\d+)?|\d+(?:[eE][+-]?\d+)?|->|::|\S''')
STEM = re.compile(r"^(.*?)(\d+)$")
FIRST_PREFIX = '"First() called on an empty sequence ('


def tokens(text: str) -> List[str]:
    return TOKEN.findall(text)


def _unescape_cpp(lit: str) -> str:
    body = lit[1:-1]
    out = []
    i = 0
    while i < len(body):
        c = body[i]
        if c == "\\" and i + 1 < len(body):
            n = body[i + 1]
            if n in "01234567":
                j = i + 1
                k = 0
                while j < len(body) and k < 3 and body[j] in "01234567":
                    j += 1
                    k += 1
                out.append(chr(int(body[i + 1 : j], 8)))
                i = j
                continue
            out.append({"n": "\n", "t": "\t", "r": "\r"}.get(n, n))
            i += 2
            continue
        out.append(c)
        i += 1
    return "".join(out)


class _DeBruijn(ast.NodeTransformer):
    def __init__(self):
        self.stack: List[Dict[str, str]] = []
        self.n = 0
        self.free: Dict[str, str] = {}

    def visit_Lambda(self, node):
        frame = {}
        for a in node.args.args:
            frame[a.arg] = f"_v{self.n}"
            self.n += 1
        self.stack.append(frame)
        for a in node.args.args:
            a.arg = frame[a.arg]
        node.body = self.visit(node.body)
        self.stack.pop()
        return node

    def visit_Tuple(self, node):
        # the text wire format has no tuples: a tuple arrives as a list, and the quoted query spells it that way
        return ast.copy_location(ast.List(elts=[self.visit(e) for e in node.elts], ctx=node.ctx), node)

    def visit_Call(self, node):
        # a free name in call position is a function name: compared exactly
        if isinstance(node.func, ast.Name) and not any(node.func.id in f for f in self.stack):
            node.args = [self.visit(a) for a in node.args]
            return node
        return self.generic_visit(node)

    def visit_Name(self, node):
        for frame in reversed(self.stack):
            if node.id in frame:
                node.id = frame[node.id]
                return node
        # free variable: a parameter of an enclosing lambda outside the quoted text (user's or func_adl's name)
        if node.id not in self.free:
            self.free[node.id] = f"_free{len(self.free)}"
        node.id = self.free[node.id]
        return node


def _first_payload_equal(l1: str, l2: str) -> bool:
    p1 = _unescape_cpp(l1)[len(FIRST_PREFIX) - 1 : -1]
    p2 = _unescape_cpp(l2)[len(FIRST_PREFIX) - 1 : -1]
    try:
        a1 = _DeBruijn().visit(ast.parse(p1, mode="eval"))
        a2 = _DeBruijn().visit(ast.parse(p2, mode="eval"))
    except SyntaxError:
        return p1 == p2
    return ast.dump(a1) == ast.dump(a2)


class Renaming:
    def __init__(self):
        self.fwd: Dict[str, str] = {}
        self.bwd: Dict[str, str] = {}

    def unify(self, a: str, b: str) -> bool:
        if self.fwd.get(a, b) != b or self.bwd.get(b, a) != a:
            return False
        self.fwd[a] = b
        self.bwd[b] = a
        return True


def _numbered_pair(a: str, b: str) -> bool:
    ma, mb = STEM.match(a), STEM.match(b)
    return bool(ma and mb and ma.group(1) == mb.group(1) and re.match(r"[A-Za-z_]", a) and re.match(r"[A-Za-z_]", b))


def compare_text(t1: str, t2: str, ren: Renaming) -> Optional[str]:
    k1, k2 = tokens(t1), tokens(t2)
    n = min(len(k1), len(k2))
    for i in range(n):
        a, b = k1[i], k2[i]
        prev = k1[i - 1] if i else ""
        is_id = re.match(r"[A-Za-z_]", a) and re.match(r"[A-Za-z_]", b)
        if is_id and prev not in (".", "->", "::"):
            if a == b and not STEM.match(a):
                continue
            if a != b and not _numbered_pair(a, b):
                return f"token {i}: {a!r} vs {b!r} (context: ...{' '.join(k1[max(0, i - 6):i + 4])})"
            if not ren.unify(a, b):
                return f"token {i}: renaming {a!r}->{b!r} is not a consistent bijection ({ren.fwd.get(a)!r}, {ren.bwd.get(b)!r})"
            continue
        if a == b:
            continue
        if a.startswith('"') and b.startswith('"'):
            if a.startswith(FIRST_PREFIX) and b.startswith(FIRST_PREFIX):
                if _first_payload_equal(a, b):
                    continue
                return f"token {i}: First() diagnostics quote different queries: {a[:120]} vs {b[:120]}"
            # only func_adl's arg_N may differ inside a literal
            ia, ib = re.split(r"(arg_\d+)", a), re.split(r"(arg_\d+)", b)
            if len(ia) == len(ib) and all((x == y) or (x.startswith("arg_") and y.startswith("arg_")) for x, y in zip(ia, ib)):
                continue
            return f"token {i}: string literal {a[:80]} vs {b[:80]}"
        return f"token {i}: {a!r} vs {b!r} (context: ...{' '.join(k1[max(0, i - 6):i + 4])})"
    if len(k1) != len(k2):
        longer = k1 if len(k1) > len(k2) else k2
        return f"token streams differ in length ({len(k1)} vs {len(k2)}); extra: {' '.join(longer[n:n + 12])}"
    return None


def compare_packages(f1: Dict[str, str], f2: Dict[str, str]) -> Optional[str]:
    if sorted(f1) != sorted(f2):
        return f"different file sets {sorted(f1)} vs {sorted(f2)}"
    ren = Renaming()
    for name in sorted(f1):
        d = compare_text(f1[name], f2[name], ren)
        if d:
            return f"{name}: {d}"
    return None
