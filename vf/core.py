"""Shared machinery: statistics that merge across shards, violation records, the Hypothesis
driver (seeded, no database, capture of the shrunk case, continue-behind-a-finding), sharding."""
from __future__ import annotations

import hashlib
import json
import multiprocessing as mp
import os
import sys
import time
import traceback
from collections import Counter
from typing import Any, Callable, Dict, List, Optional

VERIF = os.path.dirname(os.path.dirname(os.path.abspath(__file__)))
REPO = os.environ.get("VERIF_REPO", "/repo")
NPROC = int(os.environ.get("VERIF_NPROC", str(min(16, os.cpu_count() or 4))))


def h(text: str) -> str:
    return hashlib.sha1(text.encode("utf-8", "surrogatepass")).hexdigest()[:16]


def derive_seed(seed: int, *parts) -> int:
    s = hashlib.sha256(("%d|" % seed + "|".join(str(p) for p in parts)).encode()).hexdigest()
    return int(s[:12], 16)


class Violation(Exception):
    """Raised by a property body.  key = root-cause bucket, what = one line, replay = the case."""

    def __init__(self, key: str, what: str, replay: Dict[str, Any]):
        super().__init__(f"{key}: {what}")
        self.key = key
        self.what = what
        self.replay = replay


class _StopShrink(BaseException):
    pass


class Discard(Exception):
    """The generated case is outside the property's domain (counted, never a violation)."""

    def __init__(self, why: str):
        super().__init__(why)
        self.why = why


class Stats:
    MAX_SAMPLES = 10

    def __init__(self):
        self.evaluations = 0
        self.nontrivial: set = set()
        self.labels: Counter = Counter()
        self.samples: List[Any] = []
        self.excluded: Counter = Counter()
        self.discarded: Counter = Counter()
        self.violations: List[Dict[str, Any]] = []
        self.notes: List[str] = []
        self.inconclusive = False
        self.extra: Dict[str, Any] = {}

    def case(self, text: str, nontrivial: bool, labels=(), sample: Any = None):
        self.evaluations += 1
        for l in labels:
            self.labels[l] += 1
        if nontrivial:
            hh = h(text)
            new = hh not in self.nontrivial
            self.nontrivial.add(hh)
            if new and len(self.samples) < self.MAX_SAMPLES:
                self.samples.append(sample if sample is not None else text)
        elif not self.samples:
            self.samples.append(sample if sample is not None else text)

    def violation(self, key: str, what: str, replay: Dict[str, Any]):
        self.violations.append({"key": key, "what": what, "replay": replay})

    def merge(self, o: "Stats"):
        self.evaluations += o.evaluations
        self.nontrivial |= o.nontrivial
        self.labels.update(o.labels)
        for s in o.samples:
            if len(self.samples) < self.MAX_SAMPLES:
                self.samples.append(s)
        self.excluded.update(o.excluded)
        self.discarded.update(o.discarded)
        self.violations.extend(o.violations)
        self.notes.extend(o.notes)
        self.inconclusive = self.inconclusive or o.inconclusive
        for k, v in o.extra.items():
            if isinstance(v, (int, float)) and isinstance(self.extra.get(k, 0), (int, float)):
                self.extra[k] = self.extra.get(k, 0) + v
            else:
                self.extra.setdefault(k, v)
        return self


class Ctx:
    def __init__(self, pid: str, tier: str, seed: int):
        self.pid = pid
        self.tier = tier
        self.seed = seed
        self.t0 = time.time()
        b = os.environ.get("VERIF_BUDGET_S")
        self.budget_s = float(b) if b else (110.0 if tier == "quick" else 1500.0)
        self.stats = Stats()
        self.rule = ""
        self.assumptions: List[str] = []
        self.exhaustive: Optional[bool] = None

    @property
    def quick(self):
        return self.tier == "quick"

    @property
    def deadline(self) -> float:
        return self.t0 + self.budget_s

    def n(self, quick: int, thorough: int) -> int:
        scale = float(os.environ.get("VERIF_SCALE", "1"))
        return max(1, int((quick if self.quick else thorough) * scale))


# ---------------------------------------------------------------- hypothesis driver


def hyp_search(
    body: Callable[[Any], None],
    strategy,
    *,
    max_examples: int,
    seed: int,
    stats: Stats,
    deadline: Optional[float] = None,
    shrink: bool = True,
    max_rounds: int = 4,
    key_fn: Optional[Callable[[Any], str]] = None,
    shrink_budget: int = 120,
):
    """Run `body(case)` over `strategy`.  body raises Violation / Discard, or returns.
    After a violation is found (and shrunk) the search continues with that root-cause key
    suppressed (counted), so one shallow finding does not hide the ones behind it."""
    import hypothesis
    from hypothesis import HealthCheck, Phase, given, settings

    suppressed: Dict[str, int] = {}
    remaining = max_examples
    rnd = 0
    while remaining > 0 and rnd < max_rounds:
        last: Dict[str, Any] = {}
        executed = [0]
        failing: Dict[str, Violation] = {}  # bounded shrinking: cache of failing cases by key
        since_fail = [0]

        def wrapped(case):
            k = key_fn(case) if key_fn is not None else None
            if k is not None and k in failing:
                last["v"] = failing[k]
                raise failing[k]
            if failing and key_fn is not None:
                since_fail[0] += 1
                if since_fail[0] > shrink_budget:
                    raise _StopShrink()  # shrink budget used up: keep the smallest failing case so far
            if deadline is not None and time.time() > deadline and not failing:
                stats.inconclusive = True
                return
            executed[0] += 1
            try:
                body(case)
            except Discard as d:
                stats.discarded[d.why] += 1
            except Violation as v:
                if v.key in suppressed:
                    suppressed[v.key] += 1
                    return
                if failing and v.key != next(iter(failing.values())).key:
                    return  # keep the shrink on one root cause
                if k is not None:
                    failing[k] = v
                last["v"] = v
                raise

        phases = [Phase.generate, Phase.target] + ([Phase.shrink] if shrink else [])
        st = settings(
            max_examples=remaining,
            database=None,
            deadline=None,
            derandomize=False,
            report_multiple_bugs=False,
            suppress_health_check=list(HealthCheck),
            phases=phases,
            print_blob=False,
            verbosity=hypothesis.Verbosity.quiet,
        )
        test = hypothesis.seed(derive_seed(seed, "round", rnd))(st(given(strategy)(wrapped)))
        try:
            test()
            remaining = 0
        except _StopShrink:
            v = last["v"]
            stats.violation(v.key, v.what, v.replay)
            suppressed[v.key] = 0
            remaining -= executed[0]
        except Violation:
            v = last["v"]
            stats.violation(v.key, v.what, v.replay)
            suppressed[v.key] = 0
            remaining -= executed[0]
        except BaseException as e:  # hypothesis wraps some errors
            v = last.get("v")
            if v is not None and isinstance(e, Exception):
                stats.violation(v.key, v.what, v.replay)
                suppressed[v.key] = 0
                remaining -= executed[0]
            else:
                raise
        rnd += 1
    for k, c in suppressed.items():
        if c:
            stats.excluded["repeat-of-" + k] += c


# ---------------------------------------------------------------- sharding


def _shard_entry(args):
    modname, fname, payload = args
    try:
        import importlib

        mod = importlib.import_module(modname)
        return ("ok", getattr(mod, fname)(payload))
    except BaseException:
        return ("err", traceback.format_exc())


def run_shards(modname: str, fname: str, payloads: List[Any], nproc: Optional[int] = None) -> List[Any]:
    """Run vf.<mod>.<fname>(payload) for each payload in worker processes (fork)."""
    nproc = min(nproc or NPROC, len(payloads)) or 1
    if nproc == 1 or os.environ.get("VERIF_SERIAL"):
        out = [_shard_entry((modname, fname, p)) for p in payloads]
    else:
        ctx = mp.get_context("fork")
        with ctx.Pool(nproc) as pool:
            out = pool.map(_shard_entry, [(modname, fname, p) for p in payloads], chunksize=1)
    res = []
    for tag, val in out:
        if tag == "err":
            raise HarnessError("worker failed:\n" + val)
        res.append(val)
    return res


class HarnessError(Exception):
    pass


def jdump(o) -> str:
    return json.dumps(o, sort_keys=True, ensure_ascii=True, default=str)
