"""C18 - coverage-guided campaign (atheris / libFuzzer) with the round-trip oracle inside the target.

bytes -> (back end, wire format, position, one literal) -> query -> the real translator (in process, nothing compiled) -> the emitted
event source is lexed as C++ and the literal is read BACK from it by C++'s own rules (escape sequences, adjacent-literal concatenation,
numeric tokens with their suffixes): the bytes / the number read back must be the query's, or translation must have raised for a literal
C++ cannot hold.  What is decided here is the rendering of literals (the compiled-and-run comparison of C18's Hypothesis tier decides the
rest); the campaign adds libFuzzer's coverage feedback over the translator's modules and a byte-level input space.

stand-alone:  python -m vf.fuzz.c18_target [libFuzzer flags] <corpus dir>      (VERIF_FUZZ_OUT = file the first failing case is written to)
in process  :  roundtrip(case) -> None | (key, what)
"""
from __future__ import annotations

import ast
import json
import math
import os
import re
import sys

BACKENDS = ("atlas", "cms_aod", "cms_miniaod")
POSITIONS = ("bank", "tree", "colname", "str-arg", "attr", "int-col", "float-col", "float-arith", "int-cmp", "int-arg")
INT32 = (-(2**31), 2**31 - 1)


def representable(v) -> bool:
    if isinstance(v, bool):
        return True
    if isinstance(v, int):
        return INT32[0] <= v <= INT32[1]
    if isinstance(v, float):
        return math.isfinite(v)
    return "\x00" not in v and not any(0xD800 <= ord(c) <= 0xDFFF for c in v)


# ---------------------------------------------------------------- reading C++ back

_SIMPLE = {"n": 10, "t": 9, "r": 13, "a": 7, "b": 8, "f": 12, "v": 11, "\\": 92, '"': 34, "'": 39, "?": 63}


def decode_string_body(body: str) -> bytes | None:
    """the bytes a narrow C++ string literal with this body (between the quotes) denotes; None if it is not a valid body"""
    out = bytearray()
    i, n = 0, len(body)
    while i < n:
        ch = body[i]
        if ch == "\n":
            return None
        if ch != "\\":
            out += ch.encode("utf-8", "surrogatepass")
            i += 1
            continue
        i += 1
        if i >= n:
            return None
        e = body[i]
        if e in _SIMPLE:
            out.append(_SIMPLE[e])
            i += 1
        elif e in "01234567":
            j = i
            while j < n and j < i + 3 and body[j] in "01234567":
                j += 1
            v = int(body[i:j], 8)
            if v > 255:
                return None
            out.append(v)
            i = j
        elif e == "x":
            j = i + 1
            while j < n and body[j] in "0123456789abcdefABCDEF":
                j += 1  # greedy: every following hex digit belongs to the escape
            if j == i + 1:
                return None
            v = int(body[i + 1 : j], 16)
            if v > 255:
                return None
            out.append(v)
            i = j
        elif e in "uU":
            k = 4 if e == "u" else 8
            h = body[i + 1 : i + 1 + k]
            if len(h) != k or not re.fullmatch(r"[0-9a-fA-F]+", h):
                return None
            cp = int(h, 16)
            if cp > 0x10FFFF or 0xD800 <= cp <= 0xDFFF:
                return None
            out += chr(cp).encode("utf-8")
            i += 1 + k
        else:
            return None
    return bytes(out)


_TOK = re.compile(
    r'''(?P<ws>\s+)|(?P<lc>//[^\n]*)|(?P<bc>/\*.*?\*/)|(?P<str>"(?:[^"\\\n]|\\.)*")|(?P<chr>'(?:[^'\\\n]|\\.)*')'''
    r"""|(?P<num>0[xX][0-9a-fA-F]+[uUlL]*|(?:\d[\d']*\.?[\d']*|\.\d[\d']*)(?:[eE][+-]?\d+)?[uUlLfF]*)|(?P<id>[A-Za-z_]\w*)|(?P<op>.)""",
    re.S,
)


def lex(src: str):
    """(kind, text) tokens; adjacent string literals are concatenated into one ('strs', [bodies])"""
    toks = []
    for m in _TOK.finditer(src):
        k = m.lastgroup
        if k in ("ws", "lc", "bc"):
            continue
        t = m.group()
        if k == "str":
            if toks and toks[-1][0] == "strs":
                toks[-1][1].append(t[1:-1])
            else:
                toks.append(("strs", [t[1:-1]]))
        else:
            toks.append((k, t))
    return toks


def strings_in(src: str):
    """every string the source denotes (adjacent literals joined), as bytes; None entries for malformed literals"""
    out = []
    for k, t in lex(src):
        if k == "strs":
            parts = [decode_string_body(b) for b in t]
            out.append(None if any(p is None for p in parts) else b"".join(parts))
    return out


def numbers_in(src: str):
    """(negative?, kind, value) of every numeric token; negative = directly preceded by a unary minus (after '(' ',' '=' an operator or 'return')"""
    toks = lex(src)
    out = []
    for i, (k, t) in enumerate(toks):
        if k != "num":
            continue
        neg = False
        j = i - 1
        while j >= 0 and toks[j] == ("op", "("):
            j -= 1  # -(1.5) is the negative number too
        if j >= 0 and toks[j] == ("op", "-"):
            before = toks[j - 1] if j >= 1 else ("op", "(")
            if before[0] == "op" and before[1] in "(,=+-*/%<>!&|?:{;[":
                neg = True
        body = t.replace("'", "")
        suf = re.search(r"[uUlLfF]+$", body) if not body.lower().startswith("0x") else re.search(r"[uUlL]+$", body)
        core = body[: suf.start()] if suf else body
        sfx = (suf.group().lower() if suf else "")
        try:
            if core.lower().startswith("0x"):
                out.append((neg, "int", int(core, 16)))
            elif re.fullmatch(r"\d+", core) and "f" not in sfx:
                out.append((neg, "int", int(core, 8) if len(core) > 1 and core[0] == "0" else int(core)))
            else:
                if "f" in sfx:
                    out.append((neg, "float32", float(core)))
                else:
                    out.append((neg, "float", float(core)))
        except ValueError:
            out.append((neg, "bad", t))
    return out


# ---------------------------------------------------------------- the case

def C(v):
    return ast.Constant(value=v)


def build_query(backend, position, v):
    from vf.gen.query import dataset_text
    from vf.model.schema import standard_schema

    sch = standard_schema(backend)
    acc, bank = {"atlas": ("Jets", "AntiKt4"), "cms_aod": ("Muons", "muons"), "cms_miniaod": ("Muons", "slimmedMuons")}[backend]
    intm = "nTrk" if backend == "atlas" else "nSeg"
    ds = ast.parse(dataset_text(sch), mode="eval").body
    L = C(v)
    bank_n, tree_n, col_n = C(bank), C("mytree"), C("c0")
    if position == "bank":
        bank_n, col = L, "j.pt()"
    elif position == "tree":
        tree_n, col = L, "j.pt()"
    elif position == "colname":
        col_n, col = L, "j.pt()"
    elif position == "str-arg":
        col = "j.strLen(L)"
    elif position == "attr":
        col = "j.getAttributeFloat(L)"
    elif position in ("int-col", "float-col"):
        col = "L"
    elif position == "float-arith":
        col = "(j.pt() * 0 + L)"
    elif position == "int-cmp":
        col = f"(L <= j.{intm}())"
    else:
        col = "j.echoI(L)"
    text = f"ResultTTree(Select(SelectMany(DS, lambda e: e.{acc}(BANK)), lambda j: ({col}, j.eta())), [COL, 'c1'], TREE, 'out.root')"
    q = ast.parse(text, mode="eval").body

    class R(ast.NodeTransformer):
        def visit_Name(self, n):
            m = {"DS": ds, "BANK": bank_n, "TREE": tree_n, "COL": col_n, "L": L}
            return m.get(n.id, n)

    return ast.fix_missing_locations(R().visit(q))


def event_source(files) -> str:
    return files.get("query.cxx") or files.get("Analyzer.cc") or ""


def roundtrip(case):
    """None if the property holds on the case, else (key, what).  case = {backend, wire, position, lit (repr-able)}"""
    import copy

    from vf.xlate import translate

    backend, wire, position, v = case["backend"], case["wire"], case["position"], case["lit"]
    if position == "attr" and backend != "atlas":
        return None
    q = build_query(backend, position, v)
    if wire == "qastle":
        import qastle

        try:
            q = qastle.text_ast_to_python_ast(qastle.python_ast_to_text_ast(copy.deepcopy(q))).body[0].value
        except Exception:
            return None  # the wire format itself cannot carry the literal: not the translator's doing
    try:
        pkg = translate(q, backend)
    except Exception as e:
        if representable(v):
            return ("fuzz-rejected-representable", f"{position} literal {v!r} is representable yet translation raised {type(e).__name__}: {str(e)[:120]}")
        return None
    src = event_source(pkg.files)
    if isinstance(v, str):
        want = v.encode("utf-8", "surrogatepass")
        got = strings_in(src)
        if any(g is None for g in got):
            return ("fuzz-malformed-literal", f"{position} literal {v!r}: the emitted source holds a string literal that is not valid C++")
        if want not in got:
            return ("fuzz-string-bytes", f"{position} literal {v!r} ({want!r}): no string literal of the emitted source denotes these bytes")
        return None
    if isinstance(v, bool):
        return None
    nums = numbers_in(src)
    if any(k == "bad" for _, k, _ in nums):
        return ("fuzz-malformed-number", f"{position} literal {v!r}: malformed numeric token in the emitted source")
    if isinstance(v, float):
        ok = any(k in ("float", "int") and float(x) == abs(v) and neg == (math.copysign(1, v) < 0) for neg, k, x in nums)
        if not ok:
            return ("fuzz-float-value", f"{position} literal {v!r} ({v.hex()}): no numeric token of the emitted source has this value and sign")
        if position == "float-col" and not any(k == "float" and float(x) == abs(v) for _, k, x in nums):
            return ("fuzz-float-kind", f"{position} literal {v!r}: written as an integer token (its column would be an int)")
        return None
    ok = any(k == "int" and x == abs(v) and neg == (v < 0) for neg, k, x in nums)
    if not ok:
        return ("fuzz-int-value", f"{position} literal {v!r}: no integer token of the emitted source has this value and sign")
    return None


def decode(data: bytes):
    """bytes -> case (structure-aware: the literal's kind follows from the position)"""
    import atheris

    fdp = atheris.FuzzedDataProvider(data)
    backend = BACKENDS[fdp.ConsumeIntInRange(0, 2)]
    wire = ("ast", "qastle")[fdp.ConsumeIntInRange(0, 1)]
    position = POSITIONS[fdp.ConsumeIntInRange(0, len(POSITIONS) - 1)]
    if position in ("bank", "tree", "colname", "str-arg", "attr"):
        v = fdp.ConsumeUnicode(fdp.ConsumeIntInRange(0, 24))
    elif position in ("float-col", "float-arith"):
        how = fdp.ConsumeIntInRange(0, 3)
        if how == 0:
            v = fdp.ConsumeFloat()
        elif how == 1:
            v = fdp.ConsumeIntInRange(-(10**6), 10**6) / 64.0
        elif how == 2:
            v = float(fdp.ConsumeIntInRange(-(2**62), 2**62))
        else:
            try:
                v = float(f"{fdp.ConsumeIntInRange(-999999, 999999)}e{fdp.ConsumeIntInRange(-330, 310)}")
            except (ValueError, OverflowError):
                v = 0.0
    else:
        how = fdp.ConsumeIntInRange(0, 2)
        v = fdp.ConsumeIntInRange(-20, 20) if how == 0 else (fdp.ConsumeIntInRange(INT32[0] + 1, INT32[1]) if how == 1 else fdp.ConsumeIntInRange(-(2**40), 2**40))
        if v == INT32[0]:
            v += 1
    return {"backend": backend, "wire": wire, "position": position, "lit": v}


def case_to_json(c):
    v = c["lit"]
    return {"fuzz": True, "backend": c["backend"], "wire": c["wire"], "position": c["position"],
            "lit_kind": type(v).__name__, "lit": v.hex() if isinstance(v, float) else (v.encode("utf-8", "surrogatepass").hex() if isinstance(v, str) else v)}


def case_from_json(j):
    k, v = j["lit_kind"], j["lit"]
    lit = float.fromhex(v) if k == "float" else (bytes.fromhex(v).decode("utf-8", "surrogatepass") if k == "str" else (bool(v) if k == "bool" else int(v)))
    return {"backend": j["backend"], "wire": j["wire"], "position": j["position"], "lit": lit}


_COUNT = {"n": 0, "nontrivial": 0, "rejected": 0}


def one_input(data: bytes):
    import logging

    logging.disable(logging.CRITICAL)
    c = decode(data)
    _COUNT["n"] += 1
    v = c["lit"]
    if (isinstance(v, str) and re.fullmatch(r"[A-Za-z0-9_. ]*", v) is None) or (isinstance(v, float) and ("e" in repr(v) or not math.isfinite(v))) or (isinstance(v, int) and not representable(v)):
        _COUNT["nontrivial"] += 1
    bad = roundtrip(c)
    statf = os.environ.get("VERIF_FUZZ_STATS")
    if statf and _COUNT["n"] % 50 == 0:
        with open(statf, "w") as f:
            json.dump(_COUNT, f)
    if bad:
        out = os.environ.get("VERIF_FUZZ_OUT")
        if out:
            with open(out, "w") as f:
                json.dump({"key": bad[0], "what": bad[1], "case": case_to_json(c)}, f)
        if statf:
            with open(statf, "w") as f:
                json.dump(_COUNT, f)
        raise AssertionError(bad[0] + ": " + bad[1])


def main():
    import atheris

    with atheris.instrument_imports(include=["func_adl_xAOD"]):
        import func_adl_xAOD.atlas.xaod.executor  # noqa
        import func_adl_xAOD.cms.aod.executor  # noqa
        import func_adl_xAOD.cms.miniaod.executor  # noqa
    atheris.Setup(sys.argv, one_input)
    atheris.Fuzz()


if __name__ == "__main__":
    main()
