"""python -m vf.build : pre-build the C++ models of the three standard schemas (PCH + object)."""
from vf import cxx
from vf.xlate import BACKENDS

if __name__ == "__main__":
    for be in BACKENDS:
        print(be, cxx.std_model(be))
