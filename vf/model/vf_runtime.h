// Stand-in runtime for the experiment frameworks: event data, store, TTree, driver protocol.
// Everything lives in namespace vf (+ the few global/ROOT names the generated code expects).
#pragma once
#include <cstdio>
#include <cstdlib>
#include <cstring>
#include <cxxabi.h>
#include <fstream>
#include <functional>
#include <iostream>
#include <map>
#include <memory>
#include <sstream>
#include <stdexcept>
#include <string>
#include <typeinfo>
#include <vector>

namespace vf {

std::string hexs(const std::string &s);
std::string unhex(const std::string &s);

struct ObjData {
  std::string cls;
  int id = -1;
  bool is_null = false;
  std::map<std::string, double> num;
  std::map<std::string, std::string> str;
  std::map<std::string, std::vector<double>> vec;
  std::map<std::string, int> ref;
  std::map<std::string, std::vector<int>> refvec;
};

struct Bank {
  std::string ctype, bank;
  std::vector<int> ids;
};

struct ArenaItem {
  virtual ~ArenaItem() {}
};
template <class T> struct ArenaHolder : ArenaItem {
  T v;
  template <class... A> ArenaHolder(A &&...a) : v(std::forward<A>(a)...) {}
};

struct EventData {
  long id = 0;
  std::map<int, ObjData> objs;
  std::vector<Bank> banks;
  std::vector<std::unique_ptr<ArenaItem>> arena;
  const Bank *find_bank(const std::string &ctype, const std::string &bank) const {
    for (auto &b : banks)
      if (b.ctype == ctype && b.bank == bank) return &b;
    return nullptr;
  }
};

EventData *&current_event();

template <class T, class... A> T *arena_new(A &&...a) {
  auto *h = new ArenaHolder<T>(std::forward<A>(a)...);
  current_event()->arena.emplace_back(h);
  return &h->v;
}

const ObjData *null_data(const char *cls);

const ObjData *lookup(int id, const char *cls);

// Base of every model class: a handle onto an ObjData record.
class Handle {
public:
  const ObjData *d_;
  explicit Handle(const ObjData *d = nullptr) : d_(d) {}
  bool vf_null(const char *method) const;
  double vf_num(const char *slot, const char *method) const;
  std::string vf_str(const char *slot, const char *method) const;
  std::vector<double> vf_vecd(const std::string &slot, const char *method) const;
  template <class E> std::vector<E> vf_vec(const std::string &slot, const char *method) const {
    std::vector<E> r;
    for (double x : vf_vecd(slot, method)) r.push_back((E)x);
    return r;
  }
  int vf_ref(const char *slot, const char *method) const;
  std::vector<int> vf_refvec(const char *slot, const char *method) const;
};

// a pointer to a handle of class T for object id (a poison handle for null links)
template <class T> const T *ptr_to(int id, const char *cls) { return arena_new<T>(lookup(id, cls)); }

// Smart reference standing in for edm::Ref<...>: by value, ->, *, isNonnull()
template <class T> class Ref {
  const T *p_;
  bool nonnull_;

public:
  Ref() : p_(nullptr), nonnull_(false) {}
  Ref(const T *p, bool nn) : p_(p), nonnull_(nn) {}
  const T *operator->() const { return p_; }
  const T &operator*() const { return *p_; }
  bool isNonnull() const { return nonnull_; }
  bool isNull() const { return !nonnull_; }
  const T *get() const { return p_; }
};

// container of pointers (ATLAS DataVector stand-in)
template <class T> class PtrContainer {
public:
  std::vector<const T *> v_;
  typedef typename std::vector<const T *>::const_iterator const_iterator;
  const_iterator begin() const { return v_.begin(); }
  const_iterator end() const { return v_.end(); }
  size_t size() const { return v_.size(); }
  const T *at(size_t i) const { return v_.at(i); }
  const T *operator[](size_t i) const { return v_[i]; }
};

template <class T> struct TypeName; // generated: static const char* name()
template <class T> struct Builder;  // generated: static const T* build(const Bank&)

void log_req(const char *type, const std::string &bank);

// ------------------------------------------------------------------ TTree stand-in
template <class T> struct Printer;
void print_double(std::ostream &o, double x);
template <> struct Printer<int> {
  static const char *name() { return "int"; }
  static void print(std::ostream &o, const int &v) { o << v; }
};
template <> struct Printer<unsigned int> {
  static const char *name() { return "unsigned int"; }
  static void print(std::ostream &o, const unsigned int &v) { o << v; }
};
template <> struct Printer<long> {
  static const char *name() { return "long"; }
  static void print(std::ostream &o, const long &v) { o << v; }
};
template <> struct Printer<unsigned long> {
  static const char *name() { return "unsigned long"; }
  static void print(std::ostream &o, const unsigned long &v) { o << v; }
};
template <> struct Printer<short> {
  static const char *name() { return "short"; }
  static void print(std::ostream &o, const short &v) { o << v; }
};
template <> struct Printer<bool> {
  static const char *name() { return "bool"; }
  static void print(std::ostream &o, const bool &v) { o << (v ? "true" : "false"); }
};
template <> struct Printer<double> {
  static const char *name() { return "double"; }
  static void print(std::ostream &o, const double &v) { print_double(o, v); }
};
template <> struct Printer<float> {
  static const char *name() { return "float"; }
  static void print(std::ostream &o, const float &v) { print_double(o, (double)v); }
};
template <> struct Printer<std::string> {
  static const char *name() { return "string"; }
  static void print(std::ostream &o, const std::string &v) { o << "\"" << hexs(v) << "\""; }
};
template <class E> struct Printer<std::vector<E>> {
  static std::string name_s() { return std::string("vector<") + Printer<E>::name() + ">"; }
  static const char *name() {
    static std::string s = name_s();
    return s.c_str();
  }
  static void print(std::ostream &o, const std::vector<E> &v) {
    o << "[";
    bool first = true;
    for (const E &e : v) {
      if (!first) o << ", ";
      first = false;
      // vector<bool> yields proxies
      E tmp = e;
      Printer<E>::print(o, tmp);
    }
    o << "]";
  }
};

struct BranchRec {
  std::string name, type;
  const void *addr;
  void (*print)(std::ostream &, const void *);
};
template <class T> void print_thunk(std::ostream &o, const void *p) { Printer<T>::print(o, *(const T *)p); }

} // namespace vf

class TObject {};
class TTree : public TObject {
public:
  std::string name_, title_;
  std::vector<vf::BranchRec> br_;
  TTree(const char *name, const char *title);
  TTree(const std::string &name, const std::string &title);
  int vf_add_branch(const char *name, const char *type, const void *addr, void (*print)(std::ostream &, const void *));
  template <class T> int Branch(const char *name, T *addr) { return vf_add_branch(name, vf::Printer<T>::name(), addr, &vf::print_thunk<T>); }
  int Fill();
};

namespace vf {

std::string demangle(const char *n);

// event file reader (format: DESIGN.md appendix C)
std::vector<std::unique_ptr<EventData>> read_events(const char *path);

// Runs per_event() for every index of the schedule given on the command line.
int drive(int argc, char **argv, const std::function<bool()> &per_event);  // per_event returns false to abort the job

} // namespace vf
