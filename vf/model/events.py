"""Python-side event data: plain records, a writer for the driver's event file, Hypothesis strategies."""
from __future__ import annotations

from typing import Dict, List, Optional, Sequence, Tuple

from vf.model.schema import C, Coll, M, Schema


def hexs(s: str) -> str:
    b = s.encode("utf-8", "surrogateescape")
    return b.hex() if b else "-"


class Obj:
    __slots__ = ("id", "cls", "num", "vec", "ref", "refvec", "str")

    def __init__(self, id: int, cls: str):
        self.id, self.cls = id, cls
        self.num: Dict[str, float] = {}
        self.vec: Dict[str, List[float]] = {}
        self.ref: Dict[str, int] = {}
        self.refvec: Dict[str, List[int]] = {}
        self.str: Dict[str, str] = {}

    def to_json(self):
        return {"id": self.id, "cls": self.cls, "num": self.num, "vec": self.vec, "ref": self.ref, "refvec": self.refvec}

    @staticmethod
    def from_json(j):
        o = Obj(j["id"], j["cls"])
        o.num = {k: float(v) for k, v in j["num"].items()}
        o.vec = {k: [float(x) for x in v] for k, v in j["vec"].items()}
        o.ref = dict(j["ref"])
        o.refvec = {k: list(v) for k, v in j["refvec"].items()}
        return o


class Event:
    def __init__(self, id: int):
        self.id = id
        self.objs: Dict[int, Obj] = {}
        self.banks: List[Tuple[str, str, List[int]]] = []  # (container type, bank, ids)

    def new_obj(self, cls: str) -> Obj:
        o = Obj(len(self.objs), cls)
        self.objs[o.id] = o
        return o

    def find_bank(self, ctype: str, bank: str) -> Optional[List[int]]:
        for c, b, ids in self.banks:
            if c == ctype and b == bank:
                return ids
        return None

    def to_json(self):
        return {"id": self.id, "objs": [o.to_json() for o in self.objs.values()], "banks": [list(b) for b in self.banks]}

    @staticmethod
    def from_json(j):
        e = Event(j["id"])
        for oj in j["objs"]:
            o = Obj.from_json(oj)
            e.objs[o.id] = o
        e.banks = [(b[0], b[1], list(b[2])) for b in j["banks"]]
        return e


def _f(x: float) -> str:
    return repr(float(x))


def write_events(events: Sequence[Event], path: str):
    with open(path, "w") as f:
        for e in events:
            f.write(f"EVENT {e.id}\n")
            for o in e.objs.values():
                f.write(f"OBJ {o.id} {hexs(o.cls)}\n")
                for k, v in o.num.items():
                    f.write(f"N {hexs(k)} {_f(v)}\n")
                for k, v in o.str.items():
                    f.write(f"S {hexs(k)} {hexs(v)}\n")
                for k, v in o.vec.items():
                    f.write(f"V {hexs(k)} {len(v)} {' '.join(_f(x) for x in v)}\n")
                for k, v in o.ref.items():
                    f.write(f"R {hexs(k)} {v}\n")
                for k, v in o.refvec.items():
                    f.write(f"RV {hexs(k)} {len(v)} {' '.join(str(x) for x in v)}\n")
            for c, b, ids in e.banks:
                f.write(f"BANK {hexs(c)} {hexs(b)} {len(ids)} {' '.join(str(i) for i in ids)}\n")


# ------------------------------------------------------------------ strategies


def event_strategy(schema: Schema, uses: Sequence[Tuple[str, str]], *, allow_missing_bank=False, null_links=True,
                   attr_names: Sequence[str] = (), max_size=4, extra_num: Dict[str, Sequence[str]] = None, min_size=0):
    """One event holding a bank for every (accessor, bank) in `uses`."""
    from hypothesis import strategies as st

    quarter = st.integers(-256, 256).map(lambda k: k / 4.0)
    special = st.sampled_from([0.0, 1.0, -1.0, 2.0, 0.5, -0.25, 3.0])
    real = st.one_of(quarter, quarter, special)
    small_int = st.integers(-5, 9)
    sizes = st.sampled_from([x for x in [0, 0, 1, 1, 2, 2, 3, 4][: 4 + max_size] if x >= min_size])

    @st.composite
    def ev(draw, eid=0):
        e = Event(draw(st.integers(1, 10**6)))

        def fill(cls: str, depth: int) -> int:
            o = e.new_obj(cls)
            c = schema.classes[cls]
            for m in c.methods:
                if m.kind == "num":
                    if m.ctype == "bool":
                        o.num[m.name] = float(draw(st.integers(0, 1)))
                    elif m.ctype in ("int", "unsigned int", "long", "short") or m.enum:
                        o.num[m.name] = float(draw(small_int if not m.enum else st.integers(0, 2)))
                    else:
                        o.num[m.name] = draw(real)
                elif m.kind == "vec":
                    n = draw(sizes)
                    if m.ctype == "int":
                        o.vec[m.name] = [float(draw(small_int)) for _ in range(n)]
                    else:
                        o.vec[m.name] = [draw(real) for _ in range(n)]
                elif m.kind == "obj":
                    if depth >= 2 or (m.nullable and null_links and draw(st.integers(0, 3)) == 0):
                        o.ref[m.name] = -1 if m.nullable else fill_leaf(m.cls)
                    else:
                        o.ref[m.name] = fill(m.cls, depth + 1)
                elif m.kind == "objvec":
                    n = draw(sizes) if depth < 2 else 0
                    o.refvec[m.name] = [fill(m.cls, depth + 1) for _ in range(n)]
            for a in attr_names:
                if cls == "xAOD::Jet":
                    o.num["attr:" + a] = draw(real)
                    o.vec["attr:" + a] = [draw(real) for _ in range(draw(sizes))]
            return o.id

        def fill_leaf(cls: str) -> int:
            # non-nullable link at max depth: an object whose own links are null / empty
            o = e.new_obj(cls)
            c = schema.classes[cls]
            for m in c.methods:
                if m.kind == "num":
                    o.num[m.name] = float(draw(st.integers(0, 1))) if m.ctype == "bool" else float(draw(small_int))
                elif m.kind == "vec":
                    o.vec[m.name] = []
                elif m.kind == "obj":
                    o.ref[m.name] = -1 if m.nullable else fill_leaf(m.cls)
                elif m.kind == "objvec":
                    o.refvec[m.name] = []
            return o.id

        seen = set()
        for acc, bank in uses:
            col = schema.coll(acc)
            if (col.container, bank) in seen:
                continue
            seen.add((col.container, bank))
            if allow_missing_bank and draw(st.integers(0, 7)) == 0:
                continue
            n = 1 if col.singleton else draw(sizes)
            ids = [fill(col.element, 0) for _ in range(n)]
            # ties: sometimes copy the first object's numbers into the last
            if n >= 2 and draw(st.integers(0, 4)) == 0:
                src, dst = e.objs[ids[0]], e.objs[ids[-1]]
                k = draw(st.sampled_from(sorted(src.num))) if src.num else None
                if k:
                    dst.num[k] = src.num[k]
            e.banks.append((col.container, bank, ids))
        return e

    return ev()


def events_strategy(schema, uses, n_min=3, n_max=6, **kw):
    from hypothesis import strategies as st

    return st.lists(event_strategy(schema, uses, **kw), min_size=n_min, max_size=n_max).map(_renumber)


def _renumber(evs):
    for i, e in enumerate(evs):
        e.id = i + 1
    return evs
