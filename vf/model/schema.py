"""Python description of a (model of an) experiment data model: classes, methods, event collections.
From it are generated: the C++ model (vf/model/gen.py), the metadata that declares it to the
translator, random events, and the Python objects of the reference runtime."""
from __future__ import annotations

from dataclasses import dataclass, field
from typing import Dict, List, Optional, Tuple

NUM_TYPES = ("double", "float", "int", "bool")


@dataclass
class M:
    name: str
    kind: str  # num | obj | vec | objvec | echo
    ctype: str = "double"  # num: C++ type actually returned by the model; vec: element type
    cls: Optional[str] = None  # obj/objvec: target class (C++ qualified name)
    ptr: int = 0  # obj: pointer depth of the return (0 value,1 T*,2 T**); vec/objvec: 0 value, 1 pointer
    elem_ptr: int = 0  # objvec: elements are pointers (1) or values (0)
    declared: bool = False  # sent as add_method_type_info metadata inside the query
    default: bool = False  # the translator knows it by default (define_default_*_types)
    deref: int = 0  # deref_count declared (receiver must be dereferenced that often)
    nullable: bool = False  # obj link may be null in generated events
    ref: bool = False  # obj returned as smart reference (edm::Ref stand-in, by value, used with ->)
    member: bool = False  # data member instead of method
    args: Tuple[str, ...] = ()  # echo methods: argument kinds ('double','int','bool','str')
    echo: Optional[str] = None  # echo semantics id
    tree_type: Optional[str] = None
    enum: Optional[str] = None  # num returning an enum (qualified python-side dotted name)
    const_decl: bool = False  # vec: the declaration sent to the translator says const (const std::vector<T>[*]); the model returns the same object

    @property
    def typed(self):  # translator knows the type
        return self.declared or self.default


@dataclass
class C:
    name: str  # C++ qualified name, e.g. xAOD::Jet
    methods: List[M] = field(default_factory=list)
    header: Optional[str] = None  # include path that makes the class visible

    def method(self, name) -> Optional[M]:
        for m in self.methods:
            if m.name == name:
                return m
        return None


@dataclass
class Coll:
    accessor: str  # e.Jets(...)
    container: str  # C++ container type
    element: str  # element class name
    headers: Tuple[str, ...] = ()
    libs: Tuple[str, ...] = ()
    singleton: bool = False
    elem_ptr: bool = True  # container holds pointers (ATLAS) or values (CMS)
    builtin: bool = True  # else declared through metadata in the query
    banks: Tuple[str, ...] = ("b1",)
    declared_elem_ptr: Optional[bool] = None  # CMS metadata key element_pointer (None: not sent)


@dataclass
class Enum:
    ns: str  # dotted python namespace, e.g. "xAOD.Jet" (class scoped) or "MyNS"
    name: str
    values: Tuple[str, ...]
    in_class: Optional[str] = None  # C++ class the enum is nested in (else namespace level)

    @property
    def dotted(self):
        return f"{self.ns}.{self.name}"

    @property
    def cpp(self):
        return self.dotted.replace(".", "::")


@dataclass
class Schema:
    backend: str
    classes: Dict[str, C]
    colls: List[Coll]
    name: str = "std"
    enums: List[Enum] = field(default_factory=list)

    def enum(self, dotted) -> Enum:
        for e in self.enums:
            if e.dotted == dotted:
                return e
        raise KeyError(dotted)

    def coll(self, accessor) -> Coll:
        for c in self.colls:
            if c.accessor == accessor:
                return c
        raise KeyError(accessor)


def _echo_methods():
    return [
        M("echoD", "echo", args=("double",), echo="id"),
        M("echoI", "echo", args=("int",), echo="id"),
        M("echoB", "echo", args=("bool",), echo="id"),
        M("strLen", "echo", args=("str",), echo="len"),
        M("strByte", "echo", args=("str", "int"), echo="byte"),
        M("scaled", "echo", args=("double",), echo="scaled"),  # pt()*x
        M("mix", "echo", args=("double", "double"), echo="mix"),  # a * 2 + b
    ]


def atlas_schema() -> Schema:
    cl = {}
    cl["xAOD::Jet"] = C(
        "xAOD::Jet",
        [
            M("pt", "num"), M("eta", "num"), M("phi", "num"), M("m", "num"),
            M("nTrk", "num", "int", declared=True),
            M("nRaw", "num", "int", declared=True, tree_type="double"),
            M("isGood", "num", "bool", declared=True),
            M("emf", "num", "float", declared=True),
            M("weights", "vec", "float", declared=True),
            M("sumPt", "vec", "double", ptr=1, declared=True),
            M("parent", "obj", cls="xAOD::Jet", ptr=1, declared=True, nullable=True),
            M("constituents", "objvec", cls="xAOD::TrackParticle", elem_ptr=1, declared=True),
        ] + _echo_methods(),
    )
    cl["xAOD::TrackParticle"] = C(
        "xAOD::TrackParticle",
        [M("pt", "num"), M("eta", "num"), M("phi", "num"), M("d0", "num"), M("z0", "num"),
         M("charge", "num", "float", declared=True), M("nHits", "num", "int", declared=True),
         M("nPix", "num", "int", declared=True, tree_type="double"),  # (a typed leaf one level down: 2-D columns of a declared tree type)
         M("hitChi2s", "vec", "float", declared=True)],  # (a vector one level down: flattening steps inside a per-object row)
    )
    for n in ("Electron", "Muon"):
        cl[f"xAOD::{n}"] = C(
            f"xAOD::{n}",
            [M("pt", "num"), M("eta", "num"), M("phi", "num"), M("e", "num"),
             M("trackParticle", "obj", cls="xAOD::TrackParticle", ptr=1, declared=True, nullable=True),
             M("author", "num", "int", declared=True)],
        )
    cl["xAOD::TruthParticle"] = C(
        "xAOD::TruthParticle",
        [M("pt", "num"), M("eta", "num"), M("pdgId", "num", "int", declared=True),
         M("prodVtx", "obj", cls="xAODTruth::TruthVertex", ptr=1, default=True, nullable=True),
         M("decayVtx", "obj", cls="xAODTruth::TruthVertex", ptr=1, default=True, nullable=True)],
    )
    cl["xAODTruth::TruthVertex"] = C("xAODTruth::TruthVertex", [M("x", "num"), M("y", "num"), M("z", "num")])
    cl["xAOD::MissingET"] = C("xAOD::MissingET", [M("met", "num"), M("mpx", "num"), M("mpy", "num")])
    cl["xAOD::EventInfo"] = C(
        "xAOD::EventInfo",
        [M("runNumber", "num"), M("eventNumber", "num"), M("mcChannelNumber", "num", "int", declared=True)],
    )
    colls = [
        Coll("Jets", "xAOD::JetContainer", "xAOD::Jet", ("xAODJet/JetContainer.h",), ("xAODJet",), banks=("AntiKt4", "AK10")),
        Coll("Tracks", "xAOD::TrackParticleContainer", "xAOD::TrackParticle", ("xAODTracking/TrackParticleContainer.h",), ("xAODTracking",), banks=("InDetTracks",)),
        Coll("EventInfo", "xAOD::EventInfo", "xAOD::EventInfo", ("xAODEventInfo/EventInfo.h",), ("xAODEventInfo",), singleton=True, banks=("EventInfo",)),
        Coll("TruthParticles", "xAOD::TruthParticleContainer", "xAOD::TruthParticle",
             ("xAODTruth/TruthParticleContainer.h", "xAODTruth/TruthParticle.h", "xAODTruth/TruthVertex.h"), ("xAODTruth",), banks=("Truth",)),
        Coll("Electrons", "xAOD::ElectronContainer", "xAOD::Electron", ("xAODEgamma/ElectronContainer.h", "xAODEgamma/Electron.h"), ("xAODEgamma",), banks=("Electrons",)),
        Coll("Muons", "xAOD::MuonContainer", "xAOD::Muon", ("xAODMuon/MuonContainer.h", "xAODMuon/Muon.h"), ("xAODMuon",), banks=("Muons", "StacoMuons")),
        Coll("MissingET", "xAOD::MissingETContainer", "xAOD::MissingET", ("xAODMissingET/MissingETContainer.h", "xAODMissingET/MissingET.h"), ("xAODMissingET",), banks=("MET",)),
    ]
    return Schema("atlas", cl, colls, "atlas-std")


def _cms_classes(muon: str, electron: str, trackref: str, gsfref: str) -> Dict[str, C]:
    cl = {}
    cl["reco::Track"] = C(
        "reco::Track",
        [M("pt", "num"), M("eta", "num"), M("phi", "num"), M("charge", "num", "int", declared=True),
         M("hitPattern", "obj", cls="reco::HitPattern", ptr=0, default=True)],
    )
    cl["reco::HitPattern"] = C("reco::HitPattern", [M("numberOfValidHits", "num")])
    cl[muon] = C(
        muon,
        [M("pt", "num"), M("eta", "num"), M("phi", "num"),
         M("globalTrack", "obj", cls=trackref, ptr=1, default=True, nullable=True, ref=True),
         M("isPFMuon", "num", "bool", default=True),
         M("isPFIsolationValid", "num", "bool", default=True),
         M("pfIsolationR04", "obj", cls="reco::MuonPFIsolation", ptr=0, default=True),
         M("nSeg", "num", "int", declared=True),
         M("nRaw", "num", "int", declared=True, tree_type="double"),
         M("chi2s", "vec", "float", declared=True),
         M("segments", "vec", "double", ptr=1, declared=True),
         ] + _echo_methods(),
    )
    cl["reco::MuonPFIsolation"] = C(
        "reco::MuonPFIsolation", [M("sumChargedHadronPt", "num", member=True), M("sumPUPt", "num", member=True)]
    )
    cl["reco::Vertex"] = C(
        "reco::Vertex", [M("x", "num"), M("y", "num"), M("z", "num"), M("ndof", "num"), M("isFake", "num", "bool", declared=True)]
    )
    cl[electron] = C(
        electron,
        [M("pt", "num"), M("eta", "num"), M("phi", "num"),
         M("gsfTrack", "obj", cls=gsfref, ptr=1, default=True, nullable=True, ref=True),
         M("isEB", "num", "bool", default=True), M("isEE", "num", "bool", default=True),
         M("passingPflowPreselection", "num", "bool", default=True)],
    )
    if gsfref not in cl:
        cl[gsfref] = C(gsfref, [M("pt", "num"), M("eta", "num")])
    if trackref not in cl:
        cl[trackref] = C(trackref, [M("pt", "num"), M("eta", "num"), M("phi", "num"),
                                    M("hitPattern", "obj", cls="reco::HitPattern", ptr=0, default=True)])
    return cl


def cms_aod_schema() -> Schema:
    cl = _cms_classes("reco::Muon", "reco::GsfElectron", "reco::Track", "reco::GsfTrack")
    T = ("DataFormats/TrackReco/interface/Track.h", "DataFormats/TrackReco/interface/TrackFwd.h", "DataFormats/TrackReco/interface/HitPattern.h")
    MU = ("DataFormats/MuonReco/interface/Muon.h", "DataFormats/MuonReco/interface/MuonFwd.h", "DataFormats/MuonReco/interface/MuonSelectors.h",
          "DataFormats/MuonReco/interface/MuonIsolation.h", "DataFormats/MuonReco/interface/MuonPFIsolation.h")
    colls = [
        Coll("Tracks", "reco::TrackCollection", "reco::Track", T, elem_ptr=False, banks=("generalTracks",)),
        Coll("TrackMuons", "reco::TrackCollection", "reco::Track", MU + T, elem_ptr=False, banks=("globalMuons",)),
        Coll("Muons", "reco::MuonCollection", "reco::Muon", MU, elem_ptr=False, banks=("muons", "muonsFromCosmics")),
        Coll("Vertex", "reco::VertexCollection", "reco::Vertex",
             ("DataFormats/VertexReco/interface/Vertex.h", "DataFormats/VertexReco/interface/VertexFwd.h"), elem_ptr=False, banks=("offlinePrimaryVertices",)),
        Coll("GsfElectrons", "reco::GsfElectronCollection", "reco::GsfElectron",
             ("DataFormats/EgammaCandidates/interface/GsfElectron.h", "DataFormats/GsfTrackReco/interface/GsfTrack.h",
              "DataFormats/GsfTrackReco/interface/GsfTrackFwd.h"), elem_ptr=False, banks=("gsfElectrons",)),
    ]
    return Schema("cms_aod", cl, colls, "cms-aod-std")


def cms_miniaod_schema() -> Schema:
    cl = _cms_classes("pat::Muon", "pat::Electron", "reco::TrackRef", "reco::GsfTrackRef")
    colls = [
        Coll("Muons", "pat::MuonCollection", "pat::Muon", ("DataFormats/PatCandidates/interface/Muon.h",), elem_ptr=False, banks=("slimmedMuons", "otherMuons")),
        Coll("Vertex", "reco::VertexCollection", "reco::Vertex",
             ("DataFormats/VertexReco/interface/Vertex.h", "DataFormats/VertexReco/interface/VertexFwd.h"), elem_ptr=False, banks=("offlineSlimmedPrimaryVertices",)),
        Coll("Electrons", "pat::ElectronCollection", "pat::Electron",
             ("DataFormats/PatCandidates/interface/Electron.h", "DataFormats/EgammaCandidates/interface/GsfElectron.h"), elem_ptr=False, banks=("slimmedElectrons",)),
    ]
    return Schema("cms_miniaod", cl, colls, "cms-miniaod-std")


def standard_schema(backend: str) -> Schema:
    return {"atlas": atlas_schema, "cms_aod": cms_aod_schema, "cms_miniaod": cms_miniaod_schema}[backend]()


def enum_metadata(schema: Schema) -> List[dict]:
    return [{"metadata_type": "define_enum", "namespace": e.ns, "name": e.name, "values": list(e.values)} for e in schema.enums]


def collection_metadata(schema: Schema) -> List[dict]:
    """Declarations of the collections that are not built into the translator."""
    key = {"atlas": "add_atlas_event_collection_info", "cms_aod": "add_cms_aod_event_collection_info", "cms_miniaod": "add_cms_miniaod_event_collection_info"}[schema.backend]
    out = []
    for c in schema.colls:
        if c.builtin:
            continue
        md = {"metadata_type": key, "name": c.accessor, "include_files": list(c.headers), "container_type": c.container, "contains_collection": not c.singleton}
        if not c.singleton:
            md["element_type"] = c.element
        if schema.backend == "atlas" and c.libs:
            md["link_libraries"] = list(c.libs)
        if schema.backend != "atlas" and c.declared_elem_ptr is not None:
            md["element_pointer"] = c.declared_elem_ptr
        out.append(md)
    return out


def method_metadata(schema: Schema) -> List[dict]:
    """The add_method_type_info declarations a query over this schema carries."""
    out = []
    for c in schema.classes.values():
        for m in c.methods:
            if not m.declared:
                continue
            md = {"metadata_type": "add_method_type_info", "type_string": c.name, "method_name": m.name}
            if m.kind == "num":
                md["return_type"] = m.enum.replace(".", "::") if m.enum else m.ctype
                if m.tree_type:
                    md["tree_type"] = m.tree_type
            elif m.kind == "obj":
                md["return_type"] = m.cls + "*" * m.ptr
            elif m.kind == "vec":
                md["return_type_element"] = m.ctype
                md["return_type_collection"] = ("const " if m.const_decl else "") + f"std::vector<{m.ctype}>" + "*" * m.ptr
            elif m.kind == "objvec":
                md["return_type_element"] = m.cls + "*" * m.elem_ptr
                md["return_type_collection"] = f"std::vector<{'const ' if m.elem_ptr else ''}{m.cls}{'*' * m.elem_ptr}>" + "*" * m.ptr
            if m.deref:
                md["deref_count"] = m.deref
            out.append(md)
    return out
