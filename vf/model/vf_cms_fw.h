// Stand-in for the CMSSW framework pieces the rendered Analyzer.cc uses (r5: getByLabel, r7: tokens).
#pragma once
#include "vf_runtime.h"

namespace edm {
class ParameterSet {};
class EventSetup {};
class Run {};
class LuminosityBlock {};
class ParameterSetDescription {
public:
  void setUnknown() {}
};
class ConfigurationDescriptions {
public:
  void addDefault(const ParameterSetDescription &) {}
};

class InputTag {
public:
  std::string label_;
  InputTag() {}
  InputTag(const std::string &l) : label_(l) {}
  InputTag(const char *l) : label_(l) {}
};

template <class T> class Handle {
  const T *p_ = nullptr;

public:
  Handle() {}
  void vf_set(const T *p) { p_ = p; }
  bool isValid() const { return p_ != nullptr; }
  const T &operator*() const {
    if (!p_) throw std::runtime_error("ProductNotFound");
    return *p_;
  }
  const T *operator->() const {
    if (!p_) throw std::runtime_error("ProductNotFound");
    return p_;
  }
  const T *product() const { return operator->(); }
};

template <class T> class EDGetTokenT {
public:
  bool init_ = false;
  std::string tag_;
  int serial_ = -1;
  EDGetTokenT() {}
};

class Event {
public:
  template <class T> bool getByLabel(const std::string &label, Handle<T> &h) const {
    vf::log_req(vf::TypeName<T>::name(), label);
    const vf::Bank *b = vf::current_event()->find_bank(vf::TypeName<T>::name(), label);
    if (!b) return false;
    h.vf_set(vf::Builder<T>::build(*b));
    return true;
  }
  template <class T> bool getByLabel(const InputTag &tag, Handle<T> &h) const { return getByLabel(tag.label_, h); }
  template <class T> bool getByLabel(const char *label, Handle<T> &h) const { return getByLabel(std::string(label), h); }
  template <class T> bool getByToken(const EDGetTokenT<T> &tok, Handle<T> &h) const {
    if (!tok.init_) {
      std::cout << "TOKEN-UNINIT " << vf::hexs(vf::TypeName<T>::name()) << std::endl;
      throw std::runtime_error("uninitialised token");
    }
    std::cout << "TOKENUSE " << tok.serial_ << std::endl;
    return getByLabel(tok.tag_, h);
  }
};

inline int &vf_token_serial() {
  static int s = 0;
  return s;
}

class ConsumesBase {
public:
  template <class T> EDGetTokenT<T> consumes(const InputTag &tag) {
    EDGetTokenT<T> t;
    t.init_ = true;
    t.tag_ = tag.label_;
    t.serial_ = vf_token_serial()++;
    std::cout << "CONSUMES " << t.serial_ << " " << vf::hexs(vf::TypeName<T>::name()) << " " << vf::hexs(tag.label_) << std::endl;
    return t;
  }
};

class EDAnalyzerBase : public ConsumesBase {
public:
  virtual ~EDAnalyzerBase() {}
  virtual void beginJob() {}
  virtual void analyze(const Event &, const EventSetup &) = 0;
  virtual void endJob() {}
};
class EDAnalyzer : public EDAnalyzerBase {};
namespace one {
class SharedResources {};
template <class... X> class EDAnalyzer : public edm::EDAnalyzerBase {};
} // namespace one

template <class S> class Service {
  S s_;

public:
  S *operator->() { return &s_; }
};
} // namespace edm

class TFileService {
public:
  template <class T, class... A> T *make(A &&...a) {
    T *t = new T(std::forward<A>(a)...);
    std::cout << "BOOKTREE " << vf::hexs(t->name_) << std::endl;
    return t;
  }
};

#define DEFINE_FWK_MODULE(CLS)                                                                                          \
  edm::EDAnalyzerBase *vf_make_module() { return new CLS(edm::ParameterSet()); }
