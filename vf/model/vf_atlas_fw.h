// Stand-in for the ATLAS EventLoop / AnaAlgorithm framework pieces the rendered package uses.
#pragma once
#include "vf_runtime.h"

class StatusCode {
  int c_;

public:
  enum { FAILURE = 0, SUCCESS = 1 };
  StatusCode(int c = SUCCESS) : c_(c) {}
  bool isSuccess() const { return c_ == SUCCESS; }
  bool isFailure() const { return c_ != SUCCESS; }
  void ignore() const {}
  operator int() const { return c_; }
};

#define ANA_CHECK(EXP)                                                                                                  \
  do {                                                                                                                  \
    StatusCode vf_sc__ = (EXP);                                                                                         \
    if (!vf_sc__.isSuccess()) {                                                                                         \
      std::cout << "ANA_CHECK-FAILED" << std::endl;                                                                     \
      return StatusCode::FAILURE;                                                                                       \
    }                                                                                                                   \
  } while (0)

class ISvcLocator {};

namespace vf {
class Store {
public:
  template <class T> StatusCode retrieve(const T *&out, const std::string &bank) {
    log_req(TypeName<T>::name(), bank);
    const Bank *b = current_event()->find_bank(TypeName<T>::name(), bank);
    if (!b) return StatusCode::FAILURE;
    out = Builder<T>::build(*b);
    return StatusCode::SUCCESS;
  }
};
} // namespace vf

namespace EL {
class AnaAlgorithm {
  vf::Store store_;
  std::map<std::string, std::unique_ptr<TTree>> trees_;
  std::string name_;

public:
  AnaAlgorithm(const std::string &name, ISvcLocator *) : name_(name) {}
  virtual ~AnaAlgorithm() {}
  virtual StatusCode initialize() { return StatusCode::SUCCESS; }
  virtual StatusCode execute() { return StatusCode::SUCCESS; }
  virtual StatusCode finalize() { return StatusCode::SUCCESS; }
  vf::Store *evtStore() { return &store_; }
  StatusCode book(const TTree &t) {
    std::cout << "BOOKTREE " << vf::hexs(t.name_) << std::endl;
    if (trees_.count(t.name_)) return StatusCode::FAILURE;
    trees_[t.name_].reset(new TTree(t.name_, t.title_));
    return StatusCode::SUCCESS;
  }
  TTree *tree(const std::string &name) {
    auto it = trees_.find(name);
    if (it == trees_.end()) throw std::runtime_error("tree not booked: " + name);
    return it->second.get();
  }
};
} // namespace EL
