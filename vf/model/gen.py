"""Generate the C++ model (classes, containers, include tree) for a Schema."""
from __future__ import annotations

import os
from typing import Dict, List, Set

from vf.model.schema import C, Coll, M, Schema

CT = {"double": "double", "float": "float", "int": "int", "bool": "bool"}


def _ns_split(q: str):
    parts = q.split("::")
    return parts[:-1], parts[-1]


def _q(name: str) -> str:
    return "::vfm::" + name


def _open_ns(ns: List[str]) -> str:
    return "".join(f"namespace {n} {{ " for n in ns)


def _close_ns(ns: List[str]) -> str:
    return "} " * len(ns)


def _ret_type(m: M) -> str:
    if m.kind in ("num", "echo"):
        if m.enum and m.kind == "num":
            return _q(m.enum.replace(".", "::"))
        return CT.get(m.ctype, m.ctype)
    if m.kind == "obj":
        t = _q(m.cls)
        if m.ref:
            return f"vf::Ref<{t}>"
        if m.ptr == 0:
            return t
        if m.ptr == 1:
            return f"const {t}*"
        return f"const {t}* const*"
    if m.kind == "vec":
        t = f"std::vector<{m.ctype}>"
        return t if m.ptr == 0 else f"const {t}*"
    if m.kind == "objvec":
        e = _q(m.cls)
        t = f"std::vector<const {e}*>" if m.elem_ptr else f"std::vector<{e}>"
        return t if m.ptr == 0 else f"const {t}*"
    raise ValueError(m.kind)


def _arg_decl(args) -> str:
    out = []
    for i, a in enumerate(args):
        if a.startswith("enum:"):
            t = _q(a[5:].replace(".", "::"))
        else:
            t = {"double": "double", "int": "int", "bool": "bool", "str": "const std::string&"}[a]
        out.append(f"{t} a{i}")
    return ", ".join(out)


def _body(c: C, m: M) -> str:
    n = m.name
    if m.kind == "num":
        if m.enum:
            return f'return ({_q(m.enum.replace(".", "::"))})(int)vf_num("{n}","{n}");'
        if m.ctype == "bool":
            return f'return vf_num("{n}","{n}") != 0;'
        return f'return ({CT.get(m.ctype, m.ctype)})vf_num("{n}","{n}");'
    if m.kind == "echo":
        pre = f'if (vf_null("{n}")) return 0; '
        if m.echo == "id":
            return pre + "return (double)a0;"
        if m.echo == "enum10":
            return pre + "return (double)((int)a0 * 10 + 1);"
        if m.echo == "len":
            return pre + "return (double)a0.size();"
        if m.echo == "byte":
            return pre + "return (a1 >= 0 && (size_t)a1 < a0.size()) ? (double)(unsigned char)a0[a1] : -1.0;"
        if m.echo == "mix":
            return pre + "return (double)a0 * 2 + (double)a1;"
        if m.echo == "scaled":
            return pre + 'return vf_num("pt","' + n + '") * a0;'
        raise ValueError(m.echo)
    if m.kind == "obj":
        t = _q(m.cls)
        if m.ref:
            return f'int id = vf_ref("{n}","{n}"); return vf::Ref<{t}>(vf::ptr_to<{t}>(id, "{m.cls}"), id >= 0);'
        if m.ptr == 0:
            return f'return {t}(vf::lookup(vf_ref("{n}","{n}"), "{m.cls}"));'
        if m.ptr == 1:
            return f'return vf::ptr_to<{t}>(vf_ref("{n}","{n}"), "{m.cls}");'
        return f'return vf::arena_new<const {t}*>(vf::ptr_to<{t}>(vf_ref("{n}","{n}"), "{m.cls}"));'
    if m.kind == "vec":
        if m.ptr == 0:
            return f'return vf_vec<{m.ctype}>("{n}","{n}");'
        return f'return vf::arena_new<std::vector<{m.ctype}>>(vf_vec<{m.ctype}>("{n}","{n}"));'
    if m.kind == "objvec":
        e = _q(m.cls)
        vt = f"std::vector<const {e}*>" if m.elem_ptr else f"std::vector<{e}>"
        push = f'r.push_back(vf::ptr_to<{e}>(id, "{m.cls}"));' if m.elem_ptr else f'r.push_back({e}(vf::lookup(id, "{m.cls}")));'
        core = f'{vt} r; for (int id : vf_refvec("{n}","{n}")) {{ {push} }}'
        if m.ptr == 0:
            return core + " return r;"
        return core + f" return vf::arena_new<{vt}>(r);"
    raise ValueError(m.kind)


def model_header(schema: Schema, extra_cpp: str = "") -> str:
    return _model(schema, extra_cpp)[0]


def model_source(schema: Schema, extra_cpp: str = "") -> str:
    return _model(schema, extra_cpp)[1]


def _model(schema: Schema, extra_cpp: str = ""):
    fw = "vf_atlas_fw.h" if schema.backend == "atlas" else "vf_cms_fw.h"
    o = ["// generated - model of " + schema.name, "#pragma once", f'#include "{fw}"', "#include <numeric>", ""]
    src = ['#include "vf_model.h"', '#include "vf_runtime.cpp"', "namespace vfm {"]
    o.append("namespace vfm {")
    # namespace level enums
    for e in schema.enums:
        if e.in_class is None:
            ns = e.ns.split(".")
            o.append(f"{_open_ns(ns)}enum {e.name} {{ {', '.join(e.values)} }}; {_close_ns(ns)}")
    # forward declarations
    for c in schema.classes.values():
        ns, n = _ns_split(c.name)
        o.append(f"{_open_ns(ns)}class {n}; class {n}__in1; class {n}__in2; {_close_ns(ns)}")

    def emit_class(cname, n, ns, methods, extra_members=""):
        o.append(_open_ns(ns))
        o.append(f"class {n} : public vf::Handle {{ public:")
        members = [m for m in methods if m.member]
        init = "".join(
            f', {m.name}(d && !d->is_null && d->num.count("{m.name}") ? ({CT.get(m.ctype, m.ctype)})d->num.at("{m.name}") : 0)' for m in members
        )
        o.append(f"  explicit {n}(const vf::ObjData* d = nullptr) : vf::Handle(d){init} {{}}")
        if extra_members:
            o.append(extra_members)
        for m in methods:
            if m.member:
                o.append(f"  {CT.get(m.ctype, m.ctype)} {m.name};")
            else:
                o.append(f"  {_ret_type(m)} {m.name}({_arg_decl(m.args)}) const;")
        if cname in ("xAOD::Jet",):
            o.append("  template <class T> T getAttribute(const std::string& name) const;")
        o.append("};")
        o.append(_close_ns(ns))
        for m in methods:
            if not m.member:
                src.append(f"{_ret_type(m)} {'::'.join(ns + [n])}::{m.name}({_arg_decl(m.args)}) const {{ {_body(None, m)} }}")

    # class definitions (methods declared with deref_count d live behind d smart-pointer dereferences)
    for c in schema.classes.values():
        ns, n = _ns_split(c.name)
        m0 = [m for m in c.methods if m.deref == 0]
        m1 = [m for m in c.methods if m.deref == 1]
        m2 = [m for m in c.methods if m.deref == 2]
        extra = ""
        for e in schema.enums:
            if e.in_class == c.name:
                extra += f"  enum {e.name} {{ {', '.join(e.values)} }};\n"
        q = _q(c.name)
        if m1:
            extra += f"  const {q}__in1* operator->() const;\n"
            src.append(f"const {q}__in1* {c.name}::operator->() const {{ return vf::arena_new<{q}__in1>(d_); }}")
        if m2:
            extra += f"  const {q}__in2* operator*() const;\n"
            src.append(f"const {q}__in2* {c.name}::operator*() const {{ return vf::arena_new<{q}__in2>(d_); }}")
        emit_class(c.name, n, ns, m0, extra)
        if m1:
            emit_class(None, n + "__in1", ns, m1)
        if m2:
            emit_class(None, n + "__in2", ns, m2)
        if c.name == "xAOD::Jet":
            o.append("template <> float xAOD::Jet::getAttribute<float>(const std::string& name) const;")
            o.append("template <> std::vector<double> xAOD::Jet::getAttribute<std::vector<double>>(const std::string& name) const;")
            src.append(
                "template <> float xAOD::Jet::getAttribute<float>(const std::string& name) const { "
                'if (vf_null("getAttribute")) return 0; auto it = d_->num.find("attr:" + name); '
                'if (it == d_->num.end()) throw std::runtime_error("no such attribute"); return (float)it->second; }'
            )
            src.append(
                "template <> std::vector<double> xAOD::Jet::getAttribute<std::vector<double>>(const std::string& name) const { "
                'return vf_vec<double>("attr:" + name, "getAttribute"); }'
            )
    # containers
    seen: Set[str] = set()
    for col in schema.colls:
        if col.container in seen or col.singleton:
            continue
        seen.add(col.container)
        ns, n = _ns_split(col.container)
        e = _q(col.element)
        if col.elem_ptr:
            o.append(f"{_open_ns(ns)}class {n} : public vf::PtrContainer<{e}> {{}}; {_close_ns(ns)}")
        else:
            o.append(f"{_open_ns(ns)}typedef std::vector<{e}> {n}; {_close_ns(ns)}")
    o.append("} // namespace vfm")
    src.append("} // namespace vfm")
    o.append("namespace vf {")
    src.append("namespace vf {")
    seen = set()
    for col in schema.colls:
        if col.container in seen:
            continue
        seen.add(col.container)
        t = _q(col.container)
        e = _q(col.element)
        o.append(f'template <> struct TypeName<{t}> {{ static const char* name() {{ return "{col.container}"; }} }};')
        o.append(f"template <> struct Builder<{t}> {{ static const {t}* build(const Bank& b); }};")
        if col.singleton:
            src.append(f'const {t}* Builder<{t}>::build(const Bank& b) {{ return ptr_to<{t}>(b.ids.at(0), "{col.element}"); }}')
        elif col.elem_ptr:
            src.append(
                f"const {t}* Builder<{t}>::build(const Bank& b) {{ "
                f'auto* c = arena_new<{t}>(); for (int id : b.ids) c->v_.push_back(ptr_to<{e}>(id, "{col.element}")); return c; }}'
            )
        else:
            src.append(
                f"const {t}* Builder<{t}>::build(const Bank& b) {{ "
                f'auto* c = arena_new<{t}>(); for (int id : b.ids) c->push_back({e}(lookup(id, "{col.element}"))); return c; }}'
            )
    o.append("} // namespace vf")
    src.append("} // namespace vf")
    if extra_cpp:
        o.append(extra_cpp)
    return "\n".join(o) + "\n", "\n".join(src) + "\n"


def reachable(schema: Schema, cls: str) -> List[str]:
    out, todo = [], [cls]
    while todo:
        c = todo.pop()
        if c in out or c not in schema.classes:
            continue
        out.append(c)
        for m in schema.classes[c].methods:
            if m.cls:
                todo.append(m.cls)
    return out


def _using(names: List[str]) -> str:
    o = []
    for q in names:
        ns, n = _ns_split(q)
        o.append(f"{_open_ns(ns)}using ::vfm::{q}; {_close_ns(ns)}")
    return "\n".join(o) + "\n"


ATLAS_FIXED = {
    "AnaAlgorithm/AnaAlgorithm.h": "",
    "xAODRootAccess/tools/TFileAccessTracer.h": "namespace xAOD { struct TFileAccessTracer { static void enableDataSubmission(bool) {} }; }\n",
    "TTree.h": "",
    "TVector2.h": "#include <cmath>\nstruct TVector2 { static double Phi_mpi_pi(double x) { while (x >= M_PI) x -= 2*M_PI; while (x < -M_PI) x += 2*M_PI; return x; } };\n",
}
CMS_FIXED = {
    p: ""
    for p in [
        "FWCore/Framework/interface/Frameworkfwd.h", "FWCore/Framework/interface/EDAnalyzer.h", "FWCore/Framework/interface/one/EDAnalyzer.h",
        "FWCore/Framework/interface/Event.h", "FWCore/Framework/interface/MakerMacros.h", "FWCore/ParameterSet/interface/ParameterSet.h",
        "FWCore/Framework/interface/EventSetup.h", "FWCore/ServiceRegistry/interface/Service.h", "CommonTools/UtilAlgos/interface/TFileService.h",
        "FWCore/Utilities/interface/InputTag.h", "TTree.h",
    ]
}
CMS_FIXED["TVector2.h"] = ATLAS_FIXED["TVector2.h"]


def write_include_tree(schema: Schema, incdir: str):
    """One small header per include path: using-declarations that make the model names visible in
    the namespaces the generated code expects.  A collection's container + element (+ reachable)
    classes become visible through the FIRST of its headers; the others exist and are empty-ish."""
    files: Dict[str, str] = {}
    fixed = ATLAS_FIXED if schema.backend == "atlas" else CMS_FIXED
    for p, txt in fixed.items():
        files[p] = "#pragma once\n" + txt
    for col in schema.colls:
        names = ([] if col.singleton else [col.container]) + reachable(schema, col.element)
        for i, hpath in enumerate(col.headers):
            cur = files.get(hpath, "#pragma once\n")
            if i == 0:
                cur += _using(names)
                for e in getattr(schema, "enums", []):
                    if e.in_class is None:
                        ns = e.ns.split(".")
                        inner = " ".join(f"using ::vfm::{'::'.join(ns)}::{x};" for x in (e.name,) + tuple(e.values))
                        cur += f"{_open_ns(ns)}{inner} {_close_ns(ns)}\n"
            files[hpath] = cur
    files.setdefault("vf_extra_a.h", "#pragma once\n#define VF_EXTRA_A 1\n")
    files.setdefault("vf_extra_b.h", "#pragma once\n#define VF_EXTRA_B 1\n")
    # r7 template includes Track.h unconditionally
    files.setdefault("DataFormats/TrackReco/interface/Track.h", "#pragma once\n")
    for p, txt in files.items():
        full = os.path.join(incdir, p)
        os.makedirs(os.path.dirname(full), exist_ok=True)
        with open(full, "w") as f:
            f.write(txt)


ATLAS_MAIN = r"""
#include "vf_model.h"
#include "query.cxx"
int main(int argc, char** argv) {
  query alg("AnalysisAlg", nullptr);
  std::cout << "CONSTRUCTED" << std::endl;
  StatusCode sc = alg.initialize();
  std::cout << "INITIALIZED " << (sc.isSuccess() ? 1 : 0) << std::endl;
  int rc = vf::drive(argc, argv, [&]() {
    StatusCode s = alg.execute();
    if (!s.isSuccess()) { std::cout << "STATUS-FAILURE" << std::endl; return false; }
    return true;
  });
  alg.finalize();
  return rc;
}
"""

CMS_MAIN = r"""
#include "vf_model.h"
#include "Analyzer.cc"
int main(int argc, char** argv) {
  std::unique_ptr<edm::EDAnalyzerBase> mod(vf_make_module());
  std::cout << "CONSTRUCTED" << std::endl;
  mod->beginJob();
  std::cout << "INITIALIZED 1" << std::endl;
  edm::Event ev; edm::EventSetup es;
  int rc = vf::drive(argc, argv, [&]() { mod->analyze(ev, es); return true; });
  mod->endJob();
  return rc;
}
"""
