// out-of-line part of the stand-in runtime (compiled once per model)
#include "vf_runtime.h"
namespace vf {
std::string hexs(const std::string &s) {
  static const char *d = "0123456789abcdef";
  std::string o;
  for (unsigned char c : s) {
    o.push_back(d[c >> 4]);
    o.push_back(d[c & 15]);
  }
  return o.empty() ? std::string("-") : o;
}
std::string unhex(const std::string &s) {
  if (s == "-") return "";
  std::string o;
  for (size_t i = 0; i + 1 < s.size(); i += 2) o.push_back((char)std::stoi(s.substr(i, 2), nullptr, 16));
  return o;
}
EventData *&current_event() {
  static EventData *e = nullptr;
  return e;
}
const ObjData *null_data(const char *cls) {
  static std::map<std::string, ObjData> m;
  auto it = m.find(cls);
  if (it == m.end()) {
    ObjData d;
    d.cls = cls;
    d.is_null = true;
    it = m.emplace(cls, d).first;
  }
  return &it->second;
}
const ObjData *lookup(int id, const char *cls) {
  if (id < 0) return null_data(cls);
  auto &o = current_event()->objs;
  auto it = o.find(id);
  if (it == o.end()) {
    std::cout << "HARNESS-ERROR missing object " << id << std::endl;
    std::exit(3);
  }
  return &it->second;
}
void log_req(const char *type, const std::string &bank) { std::cout << "REQ " << hexs(type) << " " << hexs(bank) << std::endl; }
void print_double(std::ostream &o, double x) {
  if (x != x)
    o << "NaN";
  else if (x > 1.7976931348623157e308)
    o << "Infinity";
  else if (x < -1.7976931348623157e308)
    o << "-Infinity";
  else {
    char b[64];
    std::snprintf(b, sizeof b, "%.17g", x);
    o << b;
  }
}
std::string demangle(const char *n) {
  int st = 0;
  char *r = abi::__cxa_demangle(n, nullptr, nullptr, &st);
  std::string s = (st == 0 && r) ? r : n;
  std::free(r);
  return s;
}
std::vector<std::unique_ptr<EventData>> read_events(const char *path) {
  std::vector<std::unique_ptr<EventData>> evs;
  std::ifstream in(path);
  if (!in) {
    std::cout << "HARNESS-ERROR cannot open events" << std::endl;
    std::exit(3);
  }
  std::string line;
  EventData *cur = nullptr;
  ObjData *obj = nullptr;
  while (std::getline(in, line)) {
    std::istringstream ls(line);
    std::string tag;
    if (!(ls >> tag)) continue;
    if (tag == "EVENT") {
      evs.emplace_back(new EventData());
      cur = evs.back().get();
      ls >> cur->id;
      obj = nullptr;
    } else if (tag == "OBJ") {
      int id;
      std::string cls;
      ls >> id >> cls;
      obj = &cur->objs[id];
      obj->id = id;
      obj->cls = unhex(cls);
    } else if (tag == "N") {
      std::string slot, val;
      ls >> slot >> val;
      obj->num[unhex(slot)] = std::strtod(val.c_str(), nullptr);
    } else if (tag == "S") {
      std::string slot, val;
      ls >> slot >> val;
      obj->str[unhex(slot)] = unhex(val);
    } else if (tag == "V") {
      std::string slot;
      int n;
      ls >> slot >> n;
      auto &v = obj->vec[unhex(slot)];
      for (int i = 0; i < n; i++) {
        std::string val;
        ls >> val;
        v.push_back(std::strtod(val.c_str(), nullptr));
      }
    } else if (tag == "R") {
      std::string slot;
      int id;
      ls >> slot >> id;
      obj->ref[unhex(slot)] = id;
    } else if (tag == "RV") {
      std::string slot;
      int n;
      ls >> slot >> n;
      auto &v = obj->refvec[unhex(slot)];
      for (int i = 0; i < n; i++) {
        int id;
        ls >> id;
        v.push_back(id);
      }
    } else if (tag == "BANK") {
      Bank b;
      std::string ct, bk;
      int n;
      ls >> ct >> bk >> n;
      b.ctype = unhex(ct);
      b.bank = unhex(bk);
      for (int i = 0; i < n; i++) {
        int id;
        ls >> id;
        b.ids.push_back(id);
      }
      cur->banks.push_back(b);
    }
  }
  return evs;
}
bool Handle::vf_null(const char *method) const {
  if (d_ == nullptr || d_->is_null) {
    std::cout << "NULLDEREF " << (d_ ? d_->cls : std::string("?")) << "::" << method << std::endl;
    return true;
  }
  return false;
}
double Handle::vf_num(const char *slot, const char *method) const {
  if (vf_null(method)) return 0;
  auto it = d_->num.find(slot);
  if (it == d_->num.end()) {
    std::cout << "HARNESS-ERROR missing slot " << d_->cls << "." << slot << std::endl;
    std::exit(3);
  }
  return it->second;
}
std::string Handle::vf_str(const char *slot, const char *method) const {
  if (vf_null(method)) return "";
  auto it = d_->str.find(slot);
  return it == d_->str.end() ? std::string() : it->second;
}
std::vector<double> Handle::vf_vecd(const std::string &slot, const char *method) const {
  if (vf_null(method)) return {};
  auto it = d_->vec.find(slot);
  return it == d_->vec.end() ? std::vector<double>() : it->second;
}
int Handle::vf_ref(const char *slot, const char *method) const {
  if (vf_null(method)) return -1;
  auto it = d_->ref.find(slot);
  return it == d_->ref.end() ? -1 : it->second;
}
std::vector<int> Handle::vf_refvec(const char *slot, const char *method) const {
  if (vf_null(method)) return {};
  auto it = d_->refvec.find(slot);
  return it == d_->refvec.end() ? std::vector<int>() : it->second;
}
// Runs `per_event(ev)` for every index of the schedule given on the command line.
int drive(int argc, char **argv, const std::function<bool()> &per_event) {
  if (argc < 2) {
    std::cout << "HARNESS-ERROR usage" << std::endl;
    return 3;
  }
  auto evs = read_events(argv[1]);
  std::vector<int> sched;
  for (int i = 2; i < argc; i++) sched.push_back(std::atoi(argv[i]));
  if (argc == 2)
    for (size_t i = 0; i < evs.size(); i++) sched.push_back((int)i);
  for (int k : sched) {
    EventData *ev = evs.at(k).get();
    current_event() = ev;
    std::cout << "EVENT " << ev->id << std::endl;
    bool dead = false;
    try {
      if (!per_event()) dead = true;  // failed status: the real framework aborts the job
    } catch (const std::exception &e) {
      std::cout << "FAULT " << hexs(demangle(typeid(e).name())) << " " << hexs(e.what()) << std::endl;
      dead = true;
    } catch (...) {
      std::cout << "FAULT " << hexs("unknown") << " -" << std::endl;
      dead = true;
    }
    ev->arena.clear();
    current_event() = nullptr;
    if (dead) {
      std::cout << "ABORTED" << std::endl;
      break;
    }
  }
  std::cout << "END" << std::endl;
  return 0;
}


} // namespace vf

TTree::TTree(const char *name, const char *title) : name_(name), title_(title) {}
TTree::TTree(const std::string &name, const std::string &title) : name_(name), title_(title) {}
int TTree::vf_add_branch(const char *name, const char *type, const void *addr, void (*print)(std::ostream &, const void *)) {
  vf::BranchRec r;
  r.name = name;
  r.type = type;
  r.addr = addr;
  r.print = print;
  br_.push_back(r);
  std::cout << "BOOK " << vf::hexs(name_) << " " << vf::hexs(name) << " " << vf::hexs(r.type) << " " << (const void *)addr << std::endl;
  return 0;
}
int TTree::Fill() {
  std::ostringstream o;
  o << "ROW " << vf::hexs(name_) << " [";
  bool first = true;
  for (auto &b : br_) {
    if (!first) o << ", ";
    first = false;
    b.print(o, b.addr);
  }
  o << "]";
  std::cout << o.str() << std::endl;
  return 1;
}
