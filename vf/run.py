"""./check <id> quick|thorough [--replay file]

exit 0: property held on everything explored (KNOWN-FINDING lines possible)
exit 1: at least one unlisted violation (VIOLATION property=<id> replay=<path>)
exit 2: harness error
"""
from __future__ import annotations

import importlib
import json
import os
import re
import sys
import time
import traceback

from vf.core import VERIF, Ctx, HarnessError, Stats, h, jdump

LEVEL = "exploration"


def load_known():
    known, fixed = [], []
    p = os.path.join(VERIF, "known_findings.txt")
    if not os.path.exists(p):
        return known, fixed
    for line in open(p):
        line = line.strip()
        if not line or line.startswith("#"):
            continue
        m = re.match(r"known:\s+property=(\S+)\s+key=(\S+)\s+replay=(\S+)\s+::\s+(.*)$", line)
        if m:
            known.append({"property": m.group(1), "key": m.group(2), "replay": m.group(3), "what": m.group(4)})
            continue
        m = re.match(r"fixed:\s+property=(\S+)\s+(\S+)\s+(.*)$", line)
        if m:
            fixed.append({"property": m.group(1), "commit": m.group(2), "what": m.group(3)})
    return known, fixed


def write_replay(pid: str, v: dict) -> str:
    d = os.path.join(VERIF, "out", "replays")
    os.makedirs(d, exist_ok=True)
    body = {"property": pid, "key": v["key"], "what": v["what"], "case": v["replay"]}
    txt = json.dumps(body, indent=1, sort_keys=True, default=str)
    path = os.path.join(d, f"{pid}-{v['key']}-{h(txt)}.json")
    with open(path, "w") as f:
        f.write(txt + "\n")
    return path


def write_evidence(ctx: Ctx, n_viol: int, known_lines):
    st = ctx.stats
    cov = {
        "evaluations": st.evaluations,
        "distinct_nontrivial": len(st.nontrivial),
        "rule": ctx.rule,
        "samples": st.samples[: Stats.MAX_SAMPLES],
        "labels": dict(sorted(st.labels.items())),
        "excluded_by_construction": dict(st.excluded),
        "discarded_outside_domain": dict(st.discarded),
        "inconclusive_budget_hit": st.inconclusive,
        "known_findings_reproduced": known_lines,
        "notes": st.notes[:40],
    }
    cov.update(st.extra)
    if ctx.exhaustive is not None:
        cov["exhaustive"] = ctx.exhaustive
    ev = {
        "property_id": ctx.pid,
        "tier": ctx.tier,
        "seed": ctx.seed,
        "level": LEVEL,
        "coverage": cov,
        "assumptions": ctx.assumptions,
        "wall_s": round(time.time() - ctx.t0, 2),
        "violations": n_viol,
    }
    # runs against a scratch copy of the repository (tools/mutant.sh, tools/seed_eval.sh) keep their evidence apart
    evdir = os.environ.get("VERIF_EVIDENCE_DIR") or os.path.join(VERIF, "evidence")
    os.makedirs(evdir, exist_ok=True)
    with open(os.path.join(evdir, f"{ctx.pid}.json"), "w") as f:
        json.dump(ev, f, indent=1, sort_keys=True, default=str)
        f.write("\n")


def main(argv):
    if len(argv) < 1:
        print(__doc__)
        return 2
    pid = argv[0]
    tier = os.environ.get("VERIF_TIER", "quick")
    if tier not in ("quick", "thorough"):
        tier = "quick"
    replay = None
    rest = argv[1:]
    while rest:
        a = rest.pop(0)
        if a in ("quick", "thorough"):
            tier = a
        elif a == "--replay":
            replay = rest.pop(0)
        else:
            print("unknown argument", a)
            return 2
    seed = int(os.environ.get("VERIF_SEED", "1") or "1")
    try:
        mod = importlib.import_module(f"vf.props.{pid}")
    except ModuleNotFoundError:
        print("no such property check", pid)
        return 2
    ctx = Ctx(pid, tier, seed)
    try:
        if replay is not None:
            body = json.load(open(replay))
            case = body.get("case", body)
            vs = mod.replay(case)
            if vs:
                for v in vs:
                    print(f"replay: {v['key']}: {v['what']}")
                print(f"VIOLATION property={pid} replay={os.path.abspath(replay)}")
                return 1
            print("replay: property holds on this case")
            return 0

        known, _fixed = load_known()
        known = [k for k in known if k["property"] == pid]
        known_keys = {k["key"] for k in known}
        known_lines = []
        exit_code = 0
        # 1. pinned reproductions: regress/<pid>-*.json
        rdir = os.path.join(VERIF, "regress")
        known_by_file = {os.path.normpath(k["replay"]): k for k in known}
        for fn in sorted(os.listdir(rdir)) if os.path.isdir(rdir) else []:
            if not (fn.startswith(pid + "-") and fn.endswith(".json")):
                continue
            rel = os.path.normpath(os.path.join("regress", fn))
            body = json.load(open(os.path.join(rdir, fn)))
            vs = mod.replay(body.get("case", body))
            ctx.stats.extra["regress_replayed"] = ctx.stats.extra.get("regress_replayed", 0) + 1
            if rel in known_by_file:
                k = known_by_file[rel]
                if vs:
                    line = f"KNOWN-FINDING: property={pid} {k['what']}"
                    print(line)
                    known_lines.append(k["key"])
                else:
                    print(f"note: known finding {k['key']} no longer reproduces from {rel}")
            elif vs:
                for v in vs:
                    print(f"regression: {v['key']}: {v['what']}")
                print(f"VIOLATION property={pid} replay={os.path.join(VERIF, rel)}")
                exit_code = 1
                ctx.stats.violations.append({"key": "regress-" + fn, "what": vs[0]["what"], "replay": body, "reported": True})
        # 2. the search
        mod.run(ctx)
        # 3. report
        n_viol = 0
        seen = set()
        for v in ctx.stats.violations:
            if v.get("reported"):
                n_viol += 1
                continue
            if v["key"] in seen:
                continue
            seen.add(v["key"])
            n_viol += 1
            path = write_replay(pid, v)
            print(f"violation: {v['key']}: {v['what']}")
            print(f"VIOLATION property={pid} replay={path}")
            exit_code = 1
        write_evidence(ctx, n_viol, known_lines)
        st = ctx.stats
        print(
            f"{pid} {tier} seed={seed}: evaluations={st.evaluations} distinct_nontrivial={len(st.nontrivial)} "
            f"violations={n_viol} known={len(known_lines)} wall={time.time()-ctx.t0:.1f}s"
            + (" (budget hit: remainder inconclusive)" if st.inconclusive else "")
        )
        return exit_code
    except HarnessError as e:
        print("HARNESS ERROR:", e)
        return 2
    except Exception:
        traceback.print_exc()
        print("HARNESS ERROR: internal exception")
        return 2


if __name__ == "__main__":
    sys.exit(main(sys.argv[1:]))
