"""Reference LINQ runtime: the query TEXT is evaluated by CPython (`eval`) against the same events.
Arithmetic, comparison, boolean and conditional semantics are therefore Python's own.
Two modes: eager (sequences are lists) and lazy (generators; First pulls one element)."""
from __future__ import annotations

import ast
import ctypes
import ctypes.util
import math
from typing import Any, Callable, Dict, Iterable, List, Optional, Tuple

from vf.model.events import Event, Obj
from vf.model.schema import Schema


class Fault(Exception):
    def __init__(self, kind: str):
        super().__init__(kind)
        self.kind = kind


class Undefined(Exception):
    """The reference has no defined value here (outside every property's stated domain)."""


class StatusFailure(Exception):
    """ATLAS: retrieval of an absent bank fails the event."""



class Lazy:
    """Call-by-need thunk (by-need mode): forced by any use of the value."""

    __slots__ = ("_f", "_v", "_done")

    def __init__(self, f):
        object.__setattr__(self, "_f", f)
        object.__setattr__(self, "_done", False)
        object.__setattr__(self, "_v", None)

    def _force(self):
        if not self._done:
            v = self._f()
            while isinstance(v, Lazy):
                v = v._force()
            object.__setattr__(self, "_v", v)
            object.__setattr__(self, "_done", True)
        return self._v

    def __getattr__(self, n):
        return getattr(self._force(), n)

    def __getitem__(self, i):
        return self._force()[force(i)]

    def __iter__(self):
        return iter(self._force())

    def __bool__(self):
        return bool(self._force())

    def __float__(self):
        return float(self._force())

    def __int__(self):
        return int(self._force())

    def __index__(self):
        return self._force().__index__()

    def __abs__(self):
        return abs(self._force())

    def __neg__(self):
        return -self._force()

    def __pos__(self):
        return +self._force()

    def __call__(self, *a):
        return self._force()(*a)

    def __hash__(self):
        return hash(self._force())

    def __repr__(self):
        return repr(self._force())


def _binop(name):
    import operator

    op = getattr(operator, name)

    def fwd(self, o):
        return op(self._force(), force(o))

    def rev(self, o):
        return op(force(o), self._force())

    return fwd, rev


for _n, _d in [("add", "add"), ("sub", "sub"), ("mul", "mul"), ("truediv", "truediv"), ("mod", "mod"), ("pow", "pow"), ("floordiv", "floordiv")]:
    _fwd, _rev = _binop(_n)
    setattr(Lazy, f"__{_d}__", _fwd)
    setattr(Lazy, f"__r{_d}__", _rev)
for _n in ["lt", "le", "gt", "ge", "eq", "ne"]:
    setattr(Lazy, f"__{_n}__", _binop(_n)[0])


def force(x):
    return x._force() if isinstance(x, Lazy) else x


class Seq:
    """A sequence; `src` is a zero-argument callable returning a fresh iterator (lazy) or a list (eager)."""

    need = False

    def __init__(self, src, lazy):
        self.need = bool(getattr(lazy, "need", False))
        lazy = bool(lazy)
        self.lazy = lazy
        if lazy:
            self._src = src if callable(src) else (lambda s=src: iter(s))
        else:
            self._items = list(src() if callable(src) else src)

    def __iter__(self):
        return self._src() if self.lazy else iter(self._items)

    def _mk(self, gen_fn):
        r = Seq(gen_fn, True) if self.lazy else Seq(list(gen_fn()), False)
        r.need = self.need
        return r

    def Select(self, f):
        if self.need:
            return self._mk(lambda: (Lazy(lambda x=x: f(x)) for x in self))
        return self._mk(lambda: (f(x) for x in self))

    def SelectMany(self, f):
        def g():
            for x in self:
                for y in _as_seq(force(f(x))):
                    yield y

        return self._mk(g)

    def Where(self, p):
        def g():
            for x in self:
                r = force(p(x))
                if r:
                    yield x

        return self._mk(g)

    def Count(self):
        n = 0
        for _ in self:
            n += 1
        return n

    def Sum(self):
        acc = 0
        for v in self:
            acc = acc + force(v)
        return acc

    def Max(self):
        items = [force(x) for x in self]
        if not items:
            raise Undefined("Max of empty sequence")
        return max(items)

    def Min(self):
        items = [force(x) for x in self]
        if not items:
            raise Undefined("Min of empty sequence")
        return min(items)

    def Aggregate(self, seed, f):
        acc = force(seed)
        for v in self:
            acc = force(f(acc, v))
        return acc

    def First(self):
        for x in self:
            return x
        raise Fault("first-empty")

    def MetaData(self, md):
        return self



class Vec(Seq):
    """A collection returned by a method: a sequence that can also be indexed."""

    def __init__(self, items, lazy):
        super().__init__(list(items), False)
        self.need = bool(getattr(lazy, "need", False))
        lazy = bool(lazy)
        self.lazy = lazy
        if lazy:
            its = list(items)
            self._src = lambda: iter(its)
        self._list = list(items)

    def __getitem__(self, i):
        i = force(i)
        if isinstance(i, slice):
            raise Undefined("slice")
        if not isinstance(i, int) or isinstance(i, bool):
            raise Undefined("non-int index")
        if i < 0 or i >= len(self._list):
            raise Fault("index")
        return self._list[i]


def _as_seq(x):
    x = force(x)
    if isinstance(x, Seq):
        return x
    raise Undefined("SelectMany over a non-sequence")


class SeqList(list):
    """A materialised sequence (as opposed to a list literal of columns)."""


def _materialize(x):
    x = force(x)
    if isinstance(x, Seq):
        return SeqList(_materialize(y) for y in x)
    if isinstance(x, tuple):
        return tuple(_materialize(y) for y in x)
    if isinstance(x, list):
        return [_materialize(y) for y in x]
    if isinstance(x, AttrDict):
        return {k: _materialize(v) for k, v in x.items()}
    return x


class AttrDict(dict):
    def __getattr__(self, k):
        try:
            return self[k]
        except KeyError:
            raise AttributeError(k)


class RefObj:
    __slots__ = ("o", "cls", "rt")

    def __init__(self, o: Optional[Obj], cls: str, rt: "Runtime"):
        self.o, self.cls, self.rt = o, cls, rt

    def __getattr__(self, name):
        c = self.rt.schema.classes.get(self.cls)
        m = c.method(name) if c else None
        if m is None:
            um = self.rt.extra_env.get("__methods__", {}).get(name)
            if um is not None:
                return lambda *a: um(self, *[force(x) for x in a])
            if name in ("getAttributeFloat", "getAttributeVectorFloat") and self.cls == "xAOD::Jet":
                return lambda a: self._attr(name, a)
            raise Undefined(f"no method {self.cls}.{name}")
        if m.member:
            return self._call(m)
        return lambda *a: self._call(m, *a)

    def _attr(self, name, a):
        a = force(a)
        if self.o is None:
            self.rt.nullderef(self.cls, "getAttribute")
            return 0.0 if name == "getAttributeFloat" else Vec([], self.rt.lazy)
        if name == "getAttributeFloat":
            if "attr:" + a not in self.o.num:
                raise Fault("no-attribute")
            return self.o.num["attr:" + a]
        return Vec(self.o.vec.get("attr:" + a, []), self.rt.lazy)

    def _call(self, m, *a):
        a = tuple(force(x) for x in a)
        rt = self.rt
        if self.o is None:
            rt.nullderef(self.cls, m.name)
            if m.kind in ("num", "echo"):
                return False if m.ctype == "bool" and m.kind == "num" else (0 if m.ctype == "int" and m.kind == "num" else 0.0)
            if m.kind == "obj":
                return RefObj(None, m.cls, rt)
            return Vec([], rt.lazy)
        o = self.o
        if m.kind == "num":
            v = o.num[m.name]
            if m.ctype == "bool":
                return v != 0
            if m.ctype in ("int", "unsigned int", "long", "short") or m.enum:
                return int(v)
            return float(v)
        if m.kind == "echo":
            if m.echo == "id":
                return float(a[0])
            if m.echo == "len":
                return float(len(a[0].encode("utf-8", "surrogateescape")))
            if m.echo == "byte":
                b = a[0].encode("utf-8", "surrogateescape")
                return float(b[a[1]]) if 0 <= a[1] < len(b) else -1.0
            if m.echo == "mix":
                return float(a[0]) * 2 + float(a[1])
            if m.echo == "scaled":
                return o.num["pt"] * a[0]
            if m.echo == "enum10":
                return float(int(a[0]) * 10 + 1)
        if m.kind == "obj":
            rid = o.ref.get(m.name, -1)
            return RefObj(rt.event.objs[rid] if rid >= 0 else None, m.cls, rt)
        if m.kind == "vec":
            vals = o.vec.get(m.name, [])
            return Vec([int(x) for x in vals] if m.ctype == "int" else list(vals), rt.lazy)
        if m.kind == "objvec":
            return Vec([RefObj(rt.event.objs[i], m.cls, rt) for i in o.refvec.get(m.name, [])], rt.lazy)
        raise Undefined(m.kind)


class RefEvent:
    def __init__(self, rt: "Runtime"):
        self._rt = rt

    def __getattr__(self, accessor):
        rt = self._rt
        try:
            col = rt.schema.coll(accessor)
        except KeyError:
            raise Undefined("no collection " + accessor)

        def get(bank):
            rt.reqs.append((col.container, bank))
            ids = rt.event.find_bank(col.container, bank)
            if ids is None:
                if rt.schema.backend == "atlas":
                    raise StatusFailure(bank)
                raise Fault("product-not-found")
            if col.singleton:
                return RefObj(rt.event.objs[ids[0]], col.element, rt)
            return Vec([RefObj(rt.event.objs[i], col.element, rt) for i in ids], rt.lazy)

        return get


_libm = ctypes.CDLL(ctypes.util.find_library("m"))


def _libm_fn(name, nargs=1, argtypes=None, restype=ctypes.c_double):
    f = getattr(_libm, name)
    f.restype = restype
    f.argtypes = argtypes or [ctypes.c_double] * nargs

    def call(*a):
        return f(*[force(x) for x in a])

    return call


MATH_1 = ["sin", "cos", "tan", "acos", "asin", "atan", "sinh", "cosh", "tanh", "asinh", "acosh", "atanh", "exp", "log", "log10", "exp2",
          "expm1", "log1p", "log2", "sqrt", "cbrt", "erf", "erfc", "tgamma", "lgamma", "ceil", "floor", "trunc", "round", "rint",
          "nearbyint", "fabs"]
MATH_2 = ["atan2", "pow", "hypot", "fmod", "remainder", "copysign", "nextafter", "fdim", "fmax", "fmin"]


def math_env() -> Dict[str, Callable]:
    env: Dict[str, Callable] = {}
    for n in MATH_1:
        env[n] = _libm_fn(n, 1)
    for n in MATH_2:
        env[n] = _libm_fn(n, 2)
    env["ln"] = env["log"]
    env["fma"] = _libm_fn("fma", 3)
    env["ldexp"] = _libm_fn("ldexp", 2, [ctypes.c_double, ctypes.c_int])
    env["scalbn"] = _libm_fn("scalbn", 2, [ctypes.c_double, ctypes.c_int])
    env["scalbln"] = _libm_fn("scalbln", 2, [ctypes.c_double, ctypes.c_long])
    env["ilogb"] = _libm_fn("ilogb", 1, [ctypes.c_double], ctypes.c_int)
    env["nexttoward"] = env["nextafter"]  # long double second argument; equal for doubles
    env["abs"] = abs
    env["nan"] = lambda tag="": float("nan")
    return env


def _delta_r(eta1, phi1, eta2, phi2):
    eta1, phi1, eta2, phi2 = force(eta1), force(phi1), force(eta2), force(phi2)
    d_eta = eta1 - eta2
    x = phi1 - phi2
    while x >= math.pi:
        x -= 2 * math.pi
    while x < -math.pi:
        x += 2 * math.pi
    return math.sqrt(d_eta * d_eta + x * x)


class Mode:
    def __init__(self, name: str):
        self.name = name
        self.need = name == "need"

    def __bool__(self):
        return self.name != "eager"


def _thunk(e):
    lam = ast.Lambda(args=ast.arguments(posonlyargs=[], args=[], kwonlyargs=[], kw_defaults=[], defaults=[]), body=e)
    return ast.Call(func=ast.Name(id="_L", ctx=ast.Load()), args=[lam], keywords=[])


class _WrapDicts(ast.NodeTransformer):
    def __init__(self, need=False):
        self.need = need

    def visit_Dict(self, node):
        self.generic_visit(node)
        if self.need:
            node.values = [_thunk(v) for v in node.values]
        return ast.Call(func=ast.Name(id="_D", ctx=ast.Load()), args=[node], keywords=[])

    def visit_Tuple(self, node):
        self.generic_visit(node)
        if self.need and isinstance(node.ctx, ast.Load):
            node.elts = [_thunk(v) for v in node.elts]
        return node

    def visit_List(self, node):
        self.generic_visit(node)
        if self.need and isinstance(node.ctx, ast.Load):
            node.elts = [_thunk(v) for v in node.elts]
        return node


def compile_query(text, need: bool = False):
    if isinstance(text, ast.AST):
        import copy

        tree = ast.Expression(body=copy.deepcopy(text))
    else:
        tree = ast.parse(text, mode="eval")
    tree = ast.fix_missing_locations(_WrapDicts(need).visit(tree))
    return compile(tree, "<query>", "eval")


class Runtime:
    def __init__(self, schema: Schema, lazy, extra_env: Optional[Dict[str, Any]] = None):
        self.schema = schema
        self.lazy = lazy if isinstance(lazy, Mode) else Mode("lazy" if lazy else "eager")
        self.event: Optional[Event] = None
        self.reqs: List[Tuple[str, str]] = []
        self.nullderefs: List[str] = []
        self.extra_env = extra_env or {}

    def nullderef(self, cls, method):
        self.nullderefs.append(f"{cls}::{method}")

    def env(self) -> Dict[str, Any]:
        rt = self
        e: Dict[str, Any] = dict(math_env())
        e.update(
            {
                "_D": AttrDict,
                "_L": Lazy,
                "EventDataset": lambda *a: Seq([RefEvent(rt)], rt.lazy),
                "Select": lambda s, f: s.Select(f),
                "SelectMany": lambda s, f: s.SelectMany(f),
                "Where": lambda s, f: s.Where(f),
                "MetaData": lambda s, md: s,
                "Count": lambda s: s.Count(),
                "Sum": lambda s: s.Sum(),
                "Max": lambda s: s.Max(),
                "Min": lambda s: s.Min(),
                "First": lambda s: s.First(),
                "Aggregate": lambda s, seed, f: s.Aggregate(seed, f),
                "Range": lambda a, b: Vec(list(range(force(a), force(b))), rt.lazy),
                "ResultTTree": lambda s, names, tree, fn: s,
                "DeltaR": _delta_r,
                "isNonnull": lambda o: force(o).o is not None,
                "__builtins__": {"abs": abs, "pow": pow, "True": True, "False": False, "len": None},
            }
        )
        # declared enums as nested namespaces holding the integer values
        import types

        for en in getattr(self.schema, "enums", []):
            parts = en.dotted.split(".")
            cur = e.setdefault(parts[0], types.SimpleNamespace())
            for p_ in parts[1:]:
                if not hasattr(cur, p_):
                    setattr(cur, p_, types.SimpleNamespace())
                cur = getattr(cur, p_)
            for i, v in enumerate(en.values):
                setattr(cur, v, i)
        e.update({k: v for k, v in self.extra_env.items() if k != "__methods__"})
        return e

    def run_event(self, code, event: Event) -> dict:
        """Outcome of the query on one event: {'rows': [...]} | {'fault': kind} | {'status_failure': True}
        | {'undefined': why}; plus 'reqs' and 'nullderefs'."""
        self.event = event
        self.reqs = []
        self.nullderefs = []
        out: Dict[str, Any] = {}
        try:
            res = eval(code, self.env())
            rows = [_materialize(r) for r in res]
            out["rows"] = rows
        except Fault as f:
            out["fault"] = f.kind
        except StatusFailure:
            out["status_failure"] = True
        except Undefined as u:
            out["undefined"] = str(u)
        except (ZeroDivisionError, OverflowError, ValueError) as ex:
            out["undefined"] = type(ex).__name__
        out["reqs"] = list(self.reqs)
        out["nullderefs"] = list(self.nullderefs)
        return out


def evaluate(text: str, schema: Schema, events: List[Event], extra_env=None) -> List[dict]:
    """Per event the outcomes under the three evaluation orders a query admits:
    'eager' (most eager: every Select value computed), 'lazy' (sequences are generators) and
    'need' (call-by-need: Select values and tuple/dict items are computed only if used).
    Rows, where defined, are the same in all three; they differ only in which faults are met.
    'agree' = all three have the same outcome."""
    code = compile_query(text)
    code_need = compile_query(text, need=True)
    res = []
    for ev in events:
        oe = Runtime(schema, Mode("eager"), extra_env).run_event(code, ev)
        ol = Runtime(schema, Mode("lazy"), extra_env).run_event(code, ev)
        on = Runtime(schema, Mode("need"), extra_env).run_event(code_need, ev)
        res.append({"eager": oe, "lazy": ol, "need": on, "agree": _same_outcome(oe, ol) and _same_outcome(oe, on)})
    return res


def _same_outcome(a, b):
    ka = [k for k in ("rows", "fault", "status_failure", "undefined") if k in a]
    kb = [k for k in ("rows", "fault", "status_failure", "undefined") if k in b]
    if ka != kb:
        return False
    if "rows" in a:
        return repr(a["rows"]) == repr(b["rows"])
    if "fault" in a:
        return a["fault"] == b["fault"]
    return True


def row_columns(row) -> list:
    """A row value -> list of column values (dict: values in key order; tuple / list literal: items)."""
    if isinstance(row, AttrDict) or (isinstance(row, dict)):
        return list(row.values())
    if isinstance(row, tuple) or (isinstance(row, list) and not isinstance(row, SeqList)):
        return list(row)
    return [row]


def values_equal(exp, obs, rel=1e-6) -> bool:
    if isinstance(exp, (list, tuple)):
        if not isinstance(obs, list) or len(obs) != len(exp):
            return False
        return all(values_equal(a, b, rel) for a, b in zip(exp, obs))
    if isinstance(obs, list):
        return False
    if isinstance(exp, str) or isinstance(obs, str):
        return exp == obs
    try:
        a, b = float(exp), float(obs)
    except (TypeError, ValueError):
        return False
    if a != a or b != b:
        return a != a and b != b
    if a == b:
        return True
    if math.isinf(a) or math.isinf(b):
        return False
    return abs(a - b) <= rel * max(abs(a), abs(b), 1e-300) or abs(a - b) < 1e-12
