"""Throw-away jail for running a rendered runner.sh unmodified: a private mount namespace
(unshare -m) + chroot onto a scratch root that bind-mounts /usr (read-only tools) and /dev and holds
/scripts /results /data /work /home/atlas /opt/cms /log /stub/bin (stub tools that log and fail on demand)."""
from __future__ import annotations

import os
import shlex
import shutil
import subprocess
import tempfile
from typing import Dict, List, Optional, Tuple

from vf.core import VERIF, HarnessError

STUBS = os.path.join(VERIF, "vf", "stubs", "bin")

RELEASE_SETUP = '''echo "release_setup | cwd=$(pwd)" >> /log/cmds.txt
if [ -f /log/plan ] && grep -qx release_setup /log/plan; then echo "FAULT release_setup" >> /log/cmds.txt; return 1; fi
export AnalysisBaseExternals_PLATFORM=x86_64-stub
'''
ENTRYPOINT = '''echo "entrypoint | cwd=$(pwd)" >> /log/cmds.txt
if [ -f /log/plan ] && grep -qx entrypoint /log/plan; then echo "FAULT entrypoint" >> /log/cmds.txt; return 1; fi
export VF_CMS_ENV=1
'''


class Jail:
    def __init__(self, files: Dict[str, str], backend: str, main_script: str = "runner.sh", calib_cache: bool = False, filelist: Optional[str] = "/data/shipped.root\n"):
        self.backend = backend
        self.root = tempfile.mkdtemp(prefix="vf_jail_")
        r = self.root
        for d in ("scripts", "results", "data", "work", "log", "stub/bin", "home/atlas", "opt/cms", "usr", "dev", "tmp", "out2"):
            os.makedirs(os.path.join(r, d))
        for name in ("bin", "lib", "lib64", "sbin", "lib32", "libx32"):
            host = "/" + name
            if os.path.islink(host):
                os.symlink(os.readlink(host), os.path.join(r, name))
            elif os.path.isdir(host):
                os.makedirs(os.path.join(r, name))
        for fn, txt in files.items():
            with open(os.path.join(r, "scripts", fn), "w") as f:
                f.write(txt)
        os.chmod(os.path.join(r, "scripts", main_script), 0o755)
        if filelist is not None:
            open(os.path.join(r, "scripts", "filelist.txt"), "w").write(filelist)
        for fn in os.listdir(STUBS):
            shutil.copy(os.path.join(STUBS, fn), os.path.join(r, "stub", "bin", fn))
        open(os.path.join(r, "home/atlas/release_setup.sh"), "w").write(RELEASE_SETUP)
        open(os.path.join(r, "opt/cms/entrypoint.sh"), "w").write(ENTRYPOINT)
        if calib_cache:
            os.makedirs(os.path.join(r, "xaod_calibration_cache"))
        self.invocations = 0
        self.main_script = main_script

    def path(self, inside: str) -> str:
        return os.path.join(self.root, inside.lstrip("/"))

    def invoke(self, args: List[str], plan: Optional[str] = None, timeout: float = 30.0) -> Tuple[int, List[str], str]:
        """Run /scripts/runner.sh args in the jail.  plan = name of the tool that must fail when next invoked."""
        self.invocations += 1
        r = self.root
        open(os.path.join(r, "log", "invocation"), "w").write(str(self.invocations))
        open(os.path.join(r, "log", "cmds.txt"), "w").write("")
        planf = os.path.join(r, "log", "plan")
        if plan:
            open(planf, "w").write(plan + "\n")
        elif os.path.exists(planf):
            os.remove(planf)
        inner = "cd /work && /scripts/" + self.main_script + " " + " ".join(shlex.quote(a) for a in args)
        binds = []
        for name in ("usr", "dev"):
            binds.append(f"mount --rbind /{name} {shlex.quote(os.path.join(r, name))}")
        for name in ("bin", "lib", "lib64", "sbin"):
            if os.path.isdir("/" + name) and not os.path.islink("/" + name):
                binds.append(f"mount --rbind /{name} {shlex.quote(os.path.join(r, name))}")
        script = "set -e; " + "; ".join(binds) + f"; exec chroot {shlex.quote(r)} /usr/bin/env -i PATH=/stub/bin:/usr/bin:/bin HOME=/root /bin/bash -c {shlex.quote(inner)}"
        try:
            p = subprocess.run(["unshare", "-m", "--propagation", "private", "bash", "-c", script], capture_output=True, text=True, timeout=timeout)
        except subprocess.TimeoutExpired:
            raise HarnessError("runner.sh timed out in the jail")
        log = open(os.path.join(r, "log", "cmds.txt")).read().split("\n")
        return p.returncode, [l for l in log if l], p.stdout[-2000:] + p.stderr[-3000:]

    def read(self, inside: str) -> Optional[str]:
        p = self.path(inside)
        if os.path.isfile(p):
            return open(p, errors="replace").read()
        return None

    def cleanup(self):
        shutil.rmtree(self.root, ignore_errors=True)


def jail_available() -> bool:
    try:
        return subprocess.run(["unshare", "-m", "true"], capture_output=True).returncode == 0
    except Exception:
        return False
