# sourced by every stub tool: logging + fault plan
tool="$1"; shift
echo "$tool $* | cwd=$(pwd)" >> /log/cmds.txt
if [ -f /log/plan ] && grep -qx "$tool" /log/plan; then
  echo "FAULT $tool" >> /log/cmds.txt
  vf_fail=1
else
  vf_fail=0
fi
# "<tool>:silent" in the plan: the tool reports success without doing its work
if [ -f /log/plan ] && grep -qx "$tool:silent" /log/plan; then
  echo "SILENT $tool" >> /log/cmds.txt
  vf_silent=1
else
  vf_silent=0
fi
# "<tool>:partial" in the plan: the tool fails AFTER it has begun to write its output (ROOT opens its output file with RECREATE before it
# looks at the input; a copy runs out of space half-way)
if [ -f /log/plan ] && grep -qx "$tool:partial" /log/plan; then
  echo "FAULT $tool" >> /log/cmds.txt
  vf_partial=1
else
  vf_partial=0
fi
