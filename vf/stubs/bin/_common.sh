# sourced by every stub tool: logging + fault plan
tool="$1"; shift
echo "$tool $* | cwd=$(pwd)" >> /log/cmds.txt
if [ -f /log/plan ] && grep -qx "$tool" /log/plan; then
  echo "FAULT $tool" >> /log/cmds.txt
  vf_fail=1
else
  vf_fail=0
fi
