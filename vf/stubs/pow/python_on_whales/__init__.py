"""Stand-in for python_on_whales used by the C17 check: `docker.run` records its arguments, snapshots
the /scripts mount and follows an outcome plan set by the harness (vf_plan)."""
import os
import stat


class DockerException(Exception):
    pass


class _Exceptions:
    DockerException = DockerException


exceptions = _Exceptions()

vf_calls = []          # one record per docker.run call
vf_plan = {"outcome": "success", "chunks": [("stdout", b"hello\n")], "fail_after": 0, "payload": b"ROOTFILE"}


class _Docker:
    def run(self, image, command=None, volumes=None, remove=False, stream=False, **kw):
        rec = {"image": image, "command": list(command or []), "volumes": [tuple(str(x) for x in v) for v in (volumes or [])], "remove": remove, "stream": stream,
               "extra": sorted(kw)}
        scripts = [v for v in (volumes or []) if str(v[1]).rstrip("/") == "/scripts"]
        results = [v for v in (volumes or []) if str(v[1]).rstrip("/") == "/results"]
        if scripts:
            d = str(scripts[0][0])
            rec["scripts_files"] = sorted(os.listdir(d))
            fl = os.path.join(d, "filelist.txt")
            rec["filelist"] = open(fl).read() if os.path.exists(fl) else None
            rec["modes"] = {f: stat.S_IMODE(os.stat(os.path.join(d, f)).st_mode) for f in os.listdir(d)}
            rec["scripts_dir_mode"] = stat.S_IMODE(os.stat(d).st_mode)
        vf_calls.append(rec)
        plan = dict(vf_plan)
        if plan["outcome"] == "fail-before":
            raise DockerException("container could not start")

        def gen():
            n = 0
            for kind, data in plan["chunks"]:
                if plan["outcome"] == "fail-during" and n >= plan["fail_after"]:
                    raise DockerException("container exited with status 1")
                yield (kind, data)
                n += 1
            if plan["outcome"] == "fail-during":
                raise DockerException("container exited with status 1")
            if plan["outcome"] == "success" and results:
                with open(os.path.join(str(results[0][0]), "ANALYSIS.root"), "wb") as f:
                    f.write(plan["payload"])

        return gen()


docker = _Docker()
