#!/bin/bash
# offline setup: make sure hypothesis is importable from /venv, pre-build the C++ model PCHs
here="$(cd "$(dirname "${BASH_SOURCE[0]}")" && pwd)"
cd "$here"
if ! /venv/bin/python -c "import hypothesis" 2>/dev/null; then
  /venv/bin/pip install --no-index --find-links /opt/veriftools/wheels hypothesis || exit 1
fi
export PYTHONHASHSEED=0
export VERIF_REPO="${VERIF_REPO:-/repo}"
export PYTHONPATH="$VERIF_REPO:$here"
/venv/bin/python -m vf.build || exit 1
echo "setup ok"
