#!/bin/bash
# offline setup: make sure hypothesis is importable from /venv, pre-build the C++ model PCHs
here="$(cd "$(dirname "${BASH_SOURCE[0]}")" && pwd)"
cd "$here"
if ! /venv/bin/python -c "import hypothesis" 2>/dev/null; then
  /venv/bin/pip install --no-index --find-links /opt/veriftools/wheels hypothesis || exit 1
fi
# atheris (coverage-guided fuzzing, C18's fuzz stage) beside the repository's packages, without touching /venv
if ! PYTHONPATH="$here/.deps" /venv/bin/python -c "import atheris" 2>/dev/null; then
  /venv/bin/pip install -q --no-index --find-links /opt/veriftools/wheels --target "$here/.deps" atheris || echo "atheris not installed: C18's fuzz stage will be skipped"
fi
export PYTHONHASHSEED=0
export VERIF_REPO="${VERIF_REPO:-/repo}"
export PYTHONPATH="$VERIF_REPO:$here"
/venv/bin/python -m vf.build || exit 1
echo "setup ok"
